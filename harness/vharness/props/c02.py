"""C02 -- the Method of Equal Shares selects exactly what its definition prescribes."""
from __future__ import annotations

from .. import core
from ..core import q, lst, natl, boolc, opt, pair
from .. import pb, mesgen

NAMING = True
ID = "C02"
ORACLE = "Oracle.C02"
PROPS = ["Props/C02.v", "Props/TieGen.v"]
LEVEL = "proof"
SHARD = 60
CODES = {
    1: ("oracle", "method_of_equal_shares returns a different set than the textbook procedure (Spec/MesSpec.v: "
                  "least rho by interpolation, argmin, tie-breaking on the name-sorted tied set)"),
    2: ("model", "method_of_equal_shares returns a different set than the model of the code (Model/MesRule.v)"),
    3: ("model", "model or spec ran out of fuel"),
    4: ("oracle", "an allocation lists a project twice or a project that is not in the instance"),
    5: ("oracle", "refuse_tie_breaking: TieBreakingException raised although no round of the textbook procedure has two "
                  "tied candidates (supported free projects are selected unconditionally), or not raised although one has"),
    6: ("model", "refuse_tie_breaking: raise / no raise differs from the model of the code"),
    core.RAISED: ("oracle", "the call raised / the interpreter died outside the solver"),
}
RULE = ("elections with 1..6 voters, 1..7 projects; costs from tie-rich pools incl. zero, fractional, equal blocks, one "
        "project dearer than the budget; budgets on boundaries; approval/cardinal/cumulative/ordinal ballots (party "
        "lists, nested chains, duplicates, empty, full); every shipped additive satisfaction measure compatible with the "
        "ballot type (half of the weight on voter-normalised / per-voter utilities); Profile and MultiProfile; "
        "lexicographic, app_score, min_cost, max_cost and random strict tie-breaking; binary_sat None/True/False; "
        "resolute and irresolute (<=5 projects); plain and iterated (voter_budget_increment). non-trivial = distinct "
        "election+configuration with at least one purchase round")
ASSUMPTIONS = [
    "hand-written Gallina model of mes_rule.py tied to the code by differential execution only",
    "gmpy2 mpq arithmetic = exact Q; each voter's per-project utility is read from the library's satisfaction objects "
    "(sat_project) and is an INPUT of model and spec",
    "binary_sat=None is resolved by the harness as 'approval profile' (mes_rule.py: isinstance(profile, AbstractApprovalProfile))",
    "CBC (Relative_Cost_Sat, Additive_Cardinal_Relative_Sat normalisers): every answer re-validated, faults discarded",
]
TRUSTED = ["Model/MesRule.v mirrors pabutools/rules/mes/mes_rule.py (modelled, not verified)",
           "Spec/MesSpec.v: executable textbook rule (rho by interpolation between breakpoints)"]
EXPLANATION = ("Theorems (unbounded, Props/C02.v): the sorted sweep returns the least rho whose capped payments cover the "
               "cost (sweep_spec/rho_sweep_least), paid is invariant under permutation of supporters, rho is monotone in "
               "the budgets, the lazy scan with stale affordabilities selects the same tied set as the eager one, the "
               "binary shortcut equals the general sweep when supporters' utilities agree (and a refuting witness when "
               "they do not).  Tie: the implementation's returned set(s) are compared inside Coq with the executable "
               "textbook spec (oracle) and with the model of the code (correspondence).")


def budget(tier):
    return 2000 if tier == "quick" else 30000


def gen(rng, i, tier):
    if i % 10 == 9:     # targeted stream: state surviving between the runs of the iterated variant
        return mesgen.gen_stale(rng)
    if i % 10 == 6:     # targeted stream: money within 1e-7..1e-15 of rho*utility / of the cost / of another rho
        return mesgen.gen_near(rng)
    if i % 20 == 8:     # targeted stream: several supported free projects, refuse_tie_breaking
        return mesgen.gen_free(rng)
    if i % 20 == 3:     # targeted stream: nothing to share + supported zero-cost projects
        return mesgen.gen_boundary(rng)
    if i % 20 == 13:    # targeted stream: app_score tie-breaking on a multiprofile, exact rho tie
        return mesgen.gen_appscore_tie(rng)
    case = mesgen.gen_election(rng)
    return mesgen.gen_config(rng, case)


def impl(case):
    if case.get("solver"):
        pb.install_solver_guard()
        pb.solver_reset()
    inst, projs, prof, cls, sp, sats, utils, mults, rule, keys = mesgen.build(case)
    out = {"utils": utils, "mults": mults, "keys": keys}
    if case.get("solver"):
        st = pb.solver_state()
        if st["faults"]:
            out["solver_fault"] = st["last_fault"]
            return out
    out["raised"] = False
    try:
        res = mesgen.call_rule(case, inst, prof, cls, sp, rule)
    except Exception as e:  # noqa
        if case["tb"] == "refuse" and type(e).__name__ == "TieBreakingException":
            out["raised"] = True
            out["out"] = []
            out["flags"] = mesgen.measure(case, utils, mults, keys)
            return out
        raise
    if case.get("resolute", True):
        out["out"] = [pb.ranks(res)]
    else:
        out["out"] = [pb.ranks(r) for r in res]
    out["flags"] = mesgen.measure(case, utils, mults, keys)
    return out


def coq_case(case, o):
    voters = lst([pair(core.qlist(u), core.nat(m)) for u, m in zip(o["utils"], o["mults"])])
    return "(mkCase %s %s %s %s %s %s %s %s %s %s %s %s)" % (
        core.qlist(case["costs"]), q(case["budget"]), voters, core.qlist(o["keys"]), natl(case["enum"]),
        boolc(mesgen.resolved_binary(case)), natl(case.get("init", [])), boolc(case.get("resolute", True)),
        opt(case.get("inc"), q), lst([natl(W) for W in o["out"]]), boolc(case["tb"] == "refuse"),
        boolc(o.get("raised", False)))


def nontrivial(case, o):
    if not isinstance(o, dict) or "flags" not in o or o["flags"]["rounds"] < 1:
        return None
    return [case["costs"], case["budget"], case["ballot"], case["ballots"], case["sat"], case["multi"],
            case["tb"], case["binary"], case["resolute"], case["inc"], case.get("init", []), case.get("ballot_mults")]


def stats(cases, obs):
    keys = ["mixed", "tie", "lazy", "lazy_tie", "zero_cost", "unaffordable", "nonuniform_util", "mult2", "init"]
    d = {"n": 0, "by_ballot": {}, "by_sat": {}, "by_tb": {}, "binary": {}, "multi": 0, "irresolute": 0,
         "iterated": 0, "rounds_hist": {}, "share": {}}
    cnt = {k: 0 for k in keys}
    for c, o in zip(cases, obs):
        if not isinstance(o, dict) or "flags" not in o:
            continue
        d["n"] += 1
        d["by_ballot"][c["ballot"]] = d["by_ballot"].get(c["ballot"], 0) + 1
        d["by_sat"][c["sat"]] = d["by_sat"].get(c["sat"], 0) + 1
        t = c["tb"] if isinstance(c["tb"], str) else "perm"
        d["by_tb"][t] = d["by_tb"].get(t, 0) + 1
        d["binary"][str(c["binary"])] = d["binary"].get(str(c["binary"]), 0) + 1
        d["multi"] += bool(c["multi"])
        d["stale_state_stream"] = d.get("stale_state_stream", 0) + (c.get("stream") == "stale")
        d["boundary_stream"] = d.get("boundary_stream", 0) + (c.get("stream") == "boundary")
        d["free_projects_stream"] = d.get("free_projects_stream", 0) + (c.get("stream") == "free")
        if c["tb"] == "refuse":
            d["refuse_raised"] = d.get("refuse_raised", 0) + bool(o.get("raised"))
            d["refuse_not_raised"] = d.get("refuse_not_raised", 0) + (not o.get("raised"))
            d["refuse_not_raised_with_2_free"] = d.get("refuse_not_raised_with_2_free", 0) + (
                not o.get("raised") and sum(1 for x in c["costs"] if pb.F(x) == 0) >= 2)
        d["near_boundary_stream"] = d.get("near_boundary_stream", 0) + (c.get("stream") == "near")
        for k_ in ("near_poor", "near_rich", "exact_boundary", "near_tie", "near_afford", "bigmult"):
            d["cases_" + k_] = d.get("cases_" + k_, 0) + bool(o["flags"].get(k_))
        d["appscore_tie_stream"] = d.get("appscore_tie_stream", 0) + (c.get("stream") == "appscore")
        d["zero_budget"] = d.get("zero_budget", 0) + (pb.F(c["budget"]) == 0)
        d["negative_scores"] = d.get("negative_scores", 0) + any(
            isinstance(b, dict) and any(pb.F(v) < 0 for v in b.values()) for b in c["ballots"])
        d["big_integers"] = d.get("big_integers", 0) + any(abs(pb.F(x)) > 2 ** 53 for x in c["costs"])
        f = c.get("init_form", "none")
        d.setdefault("init_form", {})[f] = d.setdefault("init_form", {}).get(f, 0) + 1
        d["irresolute"] += not c["resolute"]
        d["iterated"] += c["inc"] is not None
        r = str(o["flags"]["rounds"])
        d["rounds_hist"][r] = d["rounds_hist"].get(r, 0) + 1
        for k in keys:
            cnt[k] += bool(o["flags"][k])
    n = max(d["n"], 1)
    d["share"] = {"round_with_poor_and_rich_supporters": round(cnt["mixed"] / n, 3),
                  "tie_at_argmin": round(cnt["tie"] / n, 3),
                  "lazy_cutoff_fired": round(cnt["lazy"] / n, 3),
                  "stale_affordability_equals_best": round(cnt["lazy_tie"] / n, 3),
                  "zero_cost_supported_project": round(cnt["zero_cost"] / n, 3),
                  "unaffordable_project": round(cnt["unaffordable"] / n, 3),
                  "supporters_with_different_utilities": round(cnt["nonuniform_util"] / n, 3),
                  "multiplicity_ge_2": round(cnt["mult2"] / n, 3),
                  "nonempty_initial_allocation": round(cnt["init"] / n, 3)}
    return d


def shrink(case):
    m = len(case["costs"])
    nv = len(case["ballots"])
    # drop a voter
    if nv > 1:
        for v in range(nv):
            c = dict(case)
            c["ballots"] = case["ballots"][:v] + case["ballots"][v + 1:]
            if case.get("ballot_mults"):
                c["ballot_mults"] = case["ballot_mults"][:v] + case["ballot_mults"][v + 1:]
            yield c
    if case.get("ballot_mults"):
        for v, mu in enumerate(case["ballot_mults"]):
            for mu2 in (1, mu // 10):
                if 1 <= mu2 < mu:
                    c = dict(case)
                    c["ballot_mults"] = case["ballot_mults"][:v] + [mu2] + case["ballot_mults"][v + 1:]
                    yield c
    # drop a project
    if m > 1:
        for j in range(m):
            c = dict(case)
            c["costs"] = case["costs"][:j] + case["costs"][j + 1:]
            ren = lambda x: x - (x > j)
            bl = []
            for b in case["ballots"]:
                if isinstance(b, dict):
                    bl.append({str(ren(int(k))): v for k, v in b.items() if int(k) != j})
                else:
                    bl.append([ren(x) for x in b if x != j])
            c["ballots"] = bl
            c["enum"] = [ren(x) for x in case["enum"] if x != j]
            c["init"] = [ren(x) for x in case.get("init", []) if x != j]
            if not isinstance(case["tb"], str):
                pm = [k for i, k in enumerate(case["tb"][1]) if i != j]
                c["tb"] = ["perm", [sorted(pm).index(k) for k in pm]]
            yield c
    # simpler configuration
    for key, val in (("inc", None), ("resolute", True), ("multi", False), ("tb", "lexico"), ("sat_mode", "class"),
                     ("init", [])):
        if case.get(key) != val:
            c = dict(case)
            c[key] = val
            yield c
