"""C01 -- every rule outcome is a feasible set of distinct instance projects; the call returns."""
from __future__ import annotations

from fractions import Fraction

from .. import core, pb, elections as E
from .. import mesgen
from ..core import q, lst, natl

NAMING = True
ID = "C01"
ORACLE = "Oracle.C01"
PROPS = ["Props/C01.v", "Props/C01mes.v"]
LEVEL = "proof"
SHARD = 300
CODES = {
    1: ("oracle", "a returned allocation contains a project twice"),
    2: ("oracle", "a returned allocation contains a project that is not in the instance"),
    3: ("oracle", "a returned allocation does not include the initial allocation"),
    4: ("oracle", "total cost of a returned allocation exceeds the budget limit"),
    core.RAISED: ("oracle", "the rule raised / the interpreter died outside the solver on a well-formed election"),
}
RULE = ("elections from the shared tie-rich generator (0..6 projects, 1..5 voters, zero/equal/fractional costs, boundary "
        "budgets, empty/duplicated ballots, all four ballot types, Profile and MultiProfile) x rule configuration drawn "
        "from {greedy (every compatible measure, additivity flag forced both ways), welfare maximiser PRIMAL_DUAL and "
        "ILP, Equal Shares plain and iterated (every additive measure, binary_sat None/False), sequential Phragmen "
        "(initial loads), completion by rule combination, exhaustion by budget increase} x tie-breaking rule x "
        "resolute/irresolute x feasible initial allocation; non-trivial = distinct (election, configuration) whose "
        "outcome selects at least one project beyond the initial allocation")
ASSUMPTIONS = [
    "feasibility of every returned allocation is decided by a Coq boolean proved equivalent to `feasible /\\ incl init`",
    "'returns normally' is decided by the harness (exception or worker death outside a solver-reaching case = failure)",
    "CBC: every answer re-validated exactly; solver faults and crashes inside solver-reaching cases are discarded",
]
TRUSTED = ["Python-level exceptions (typing, deepcopy, numpy) are visible only to the correspondence run"]
EXPLANATION = ("Theorems: the oracle decides exactly feasibility + inclusion of the initial allocation; feasibility "
               "invariants of the rule models are proved in the rule files (greedy, Equal Shares, Phragmen, knapsack, "
               "wrappers) and re-exported in Props/C01.v. Tie: every rule of the library is run on generated elections "
               "and each returned allocation is checked by the verified oracle inside Coq.")

RULES = ["greedy", "greedy", "maxw_pd", "maxw_ilp", "mes", "mes", "mes_iter", "phragmen", "phragmen",
         "completion", "increase", "increase", "mes", "mes_tight", "mes_tight", "mes_tight", "mes_tight", "mes_tight",
         "maxw_knap", "maxw_knap", "maxw_knap"]


def budget(tier):
    return 3000 if tier == "quick" else 30000


def _gen_mes_tight(rng):
    """Equal Shares on larger multiprofiles with big multiplicities and a budget equal to a subset sum: the
    stream on which a bookkeeping slip in the payments (e.g. a forgotten multiplicity) ends over budget."""
    m = rng.choice([6, 7, 8])
    pool = rng.choice([[1, 2, 3, 4], [1, 2, 4, 5], [2, 3, 5], [1, 1, 2, 3], [1, 2, 3, 5, 8]])
    costs = [Fraction(rng.choice(pool)) for _ in range(m)]
    ballots = []
    for _ in range(rng.choice([3, 4, 5])):
        S = sorted(rng.sample(range(m), rng.randrange(2, m)))
        ballots += [S] * rng.choice([1, 2, 3, 4, 5])
    B = sum(rng.sample(costs, rng.randrange(m // 2, m)), Fraction(0))
    order = list(range(m))
    rng.shuffle(order)
    perm = list(range(m))
    rng.shuffle(perm)
    return {"costs": [pb.qs(c) for c in costs], "budget": pb.qs(B), "order": order, "btype": "approval",
            "ballots": ballots, "multi": rng.random() < 0.85, "rule": "mes",
            "sat": rng.choice(["Cost_Sat", "Cardinality_Sat"]),
            "tb": rng.choice(["lexico", "min_cost", "max_cost", "perm", "app_score"]), "perm": perm,
            "resolute": rng.random() < 0.85, "init": [], "solver": False, "binary_sat": rng.choice([None, False]),
            "stream": "mes_tight"}


def _gen_maxw_knap(rng):
    """Welfare maximiser (primal/dual knapsack) on instances whose profits are uncorrelated with the costs:
    the branch-and-bound then replaces incumbents several times, which is where a slip in the reconstruction of
    the selected set shows (wrong or over-budget allocation)."""
    m = rng.choice([5, 6, 7, 8])
    costs = [Fraction(rng.choice([1, 2, 3, 4, 5, 6, 7, 9, 11])) for _ in range(m)]
    nv = rng.choice([1, 2, 3])
    ballots = [{str(j): pb.qs(rng.choice([1, 2, 3, 4, 5, 6, 7, 8])) for j in range(m) if rng.random() < 0.85}
               for _ in range(nv)]
    tot = sum(costs, Fraction(0))
    B = tot * rng.choice([Fraction(1, 2), Fraction(2, 5), Fraction(3, 5), Fraction(1, 3)])
    order = list(range(m))
    rng.shuffle(order)
    c = {"costs": [pb.qs(x) for x in costs], "budget": pb.qs(B), "order": order, "btype": "cardinal",
         "ballots": ballots, "multi": rng.random() < 0.3, "rule": "maxw_pd", "sat": "Additive_Cardinal_Sat",
         "tb": "lexico", "perm": list(range(m)), "resolute": True, "init": [], "solver": False,
         "stream": "maxw_knap"}
    if rng.random() < 0.3:
        c["init"] = E.feasible_subset(rng, c["costs"], c["budget"])
    return c


def _scale_of(e):
    """step / increment of the budget-increase loops follow the scale of the costs (elections with integers far
    beyond 2**53 would otherwise need ~10**18 iterations: the documented behaviour, but not a test case)"""
    big = max([abs(pb.F(x)) for x in e["costs"]] + [abs(pb.F(e["budget"]))], default=Fraction(0))
    return Fraction(int(big) // 16 + 1) if big > 2 ** 40 else Fraction(1)


def gen(rng, i, tier):
    rule = RULES[i % len(RULES)]
    if rule == "mes_tight":
        return _gen_mes_tight(rng)
    if rule == "maxw_knap":
        return _gen_maxw_knap(rng)
    btypes = ("approval",) if rule == "phragmen" else ("approval", "approval", "cardinal", "cumulative", "ordinal")
    deg = rng.random() < 0.2      # degenerate stream
    e = E.gen_election(rng, max_proj=(3 if deg else 6), max_voters=5, btypes=btypes)
    if deg:
        k = rng.randrange(4)
        n = len(e["costs"])
        if k == 0:
            e["costs"] = ["0/1"] * n                       # all-zero costs
        elif k == 1:
            e["ballots"] = [[] if e["btype"] in ("approval", "ordinal") else {} for _ in e["ballots"]]
        elif k == 2 and n:
            e["budget"] = pb.qs(min(pb.F(c) for c in e["costs"]) / 2 or Fraction(1, 2))   # nothing affordable
    if not deg and (rule == "phragmen" or (rule == "increase" and e["btype"] == "approval" and rng.random() < 0.3)) \
            and rng.random() < 0.6:
        # Phragmen-shaped elections (disjoint groups of g voters with projects of cost g*r: several projects are due
        # at the same moment, some of them fit and some do not -- the stop rule under ties): the generator of C05
        from . import c05
        g = c05._draw(rng, "party")
        if len(g["ballots"]) >= 1:
            e = {"costs": g["costs"], "budget": g["budget"], "order": g["order"], "btype": "approval",
                 "ballots": [sorted(b) for b in g["ballots"]], "multi": g["multi"]}
    if not deg and rule in ("mes", "mes_iter", "completion", "increase") and rng.random() < 0.7:
        # Equal-Shares-shaped elections (many rounds, poor and rich supporters in one round, duplicated ballots
        # -> multiplicities >= 2, equal costs -> ties): the shared generator of the Equal Shares properties
        g = mesgen.gen_election(rng, max_proj=6, max_vot=6)
        if rule == "increase" and g["ballot"] != "approval" and rng.random() < 0.5:
            g = mesgen.gen_election(rng, max_proj=6, max_vot=6)
        n2 = len(g["costs"])
        order = list(range(n2))
        rng.shuffle(order)
        e = {"costs": g["costs"], "budget": g["budget"], "order": order, "btype": g["ballot"],
             "ballots": g["ballots"], "multi": rng.random() < 0.6}
    if not deg and rule in ("mes_iter", "increase") and e["btype"] == "approval" and e["ballots"] \
            and len(e["costs"]) < 7 and rng.random() < 0.4:
        # a tempting project that costs slightly more than the whole budget and is approved by (almost) everybody:
        # with growing endowments the voters can pay for it, the outcome of that try is infeasible for the original
        # budget, and the wrapper has to fall back on the previous try
        e = dict(e)
        j = len(e["costs"])
        B = pb.F(e["budget"])
        e["costs"] = list(e["costs"]) + [pb.qs(B + rng.choice([Fraction(1, 3), 1, B / 8 + 1]))]
        e["order"] = list(e["order"]) + [j]
        rng.shuffle(e["order"])
        skip = rng.randrange(len(e["ballots"])) if len(e["ballots"]) > 2 and rng.random() < 0.5 else None
        e["ballots"] = [sorted(list(b) + [j]) if k != skip else list(b) for k, b in enumerate(e["ballots"])]
    c = dict(e)
    c["rule"] = rule
    sats = E.SATS[e["btype"]]
    additive = [s for s, (a, _) in sats.items() if a]
    if rule in ("greedy", "completion", "increase"):
        c["sat"] = rng.choice(list(sats))
    else:
        c["sat"] = rng.choice(additive)
    if sats[c["sat"]][1] and _scale_of(e) > 1:
        # CBC cannot take coefficients far beyond 2**53 (it answers without a solution and the normaliser raises):
        # a solver fault, outside the property; such elections use the measures that do not reach the solver
        c["sat"] = rng.choice([s for s in (sats if rule in ("greedy", "completion", "increase") else additive)
                               if not sats[s][1]])
    tbs = ["lexico", "min_cost", "max_cost", "perm"] + (["app_score"] if e["btype"] == "approval" else [])
    c["tb"] = rng.choice(tbs)
    n = len(e["costs"])
    perm = list(range(n))
    rng.shuffle(perm)
    c["perm"] = perm
    c["resolute"] = rng.random() < (0.45 if rule in ("increase", "completion") else 0.6)
    c["init"] = []
    c["solver"] = bool(sats[c["sat"]][1]) or rule == "maxw_ilp"
    if rule == "greedy":
        c["additive_flag"] = rng.choice([None, False] + ([True] if sats[c["sat"]][0] else []))
    if rule in ("mes", "mes_iter"):
        c["binary_sat"] = rng.choice([None, False])
    if rule == "mes_iter":
        c["increment"] = pb.qs(rng.choice([1, Fraction(1, 2), Fraction(1, 3), 2]) * _scale_of(e))
        c["resolute"] = True if rng.random() < 0.8 else c["resolute"]
    if rule == "phragmen":
        nv = len(e["ballots"])
        c["loads"] = None if rng.random() < 0.5 else [pb.qs(rng.choice([0, 0, 1, Fraction(1, 2), Fraction(1, 3)])) for _ in range(nv)]
        if e["multi"]:
            c["loads"] = None      # loads are per ballot object; only given for list profiles
    if rule == "increase":
        c["base"] = rng.choice(["mes", "phragmen", "greedy"]) if e["btype"] == "approval" else rng.choice(["mes", "greedy"])
        if c["base"] == "mes" and not sats[c["sat"]][0]:
            c["sat"] = rng.choice(additive)
            c["solver"] = bool(sats[c["sat"]][1])
        c["step"] = pb.qs(rng.choice([1, Fraction(1, 2), Fraction(1, 3), 2]) * _scale_of(e))
        c["exhaustive_stop"] = rng.random() < 0.7
    if rule == "completion":
        if not sats[c["sat"]][0]:
            c["sat"] = rng.choice(additive)
            c["solver"] = bool(sats[c["sat"]][1])
    if sats[c["sat"]][1] and _scale_of(e) > 1:
        # (again, after the re-draws above) no solver-backed measure on integers far beyond 2**53
        pool = [s for s in additive if not sats[s][1]]
        c["sat"] = rng.choice(pool)
        c["solver"] = rule == "maxw_ilp"
    if sats[c["sat"]][1]:
        # MIP-backed normalisers: a ballot whose projects all cost 0 gives CBC an all-zero knapsack row,
        # on which the bundled build aborts the process (excluded by the property) -> no zero costs here
        c["costs"] = [x if pb.F(x) != 0 else "1/1" for x in c["costs"]]
    if rule not in ("mes", "mes_iter", "increase", "completion"):
        c["init"] = E.feasible_subset(rng, c["costs"], c["budget"])
    if rule == "increase" and c.get("base") in ("phragmen", "greedy") and rng.random() < 0.5:
        c["init"] = E.feasible_subset(rng, c["costs"], c["budget"])   # wrappers around rules that accept one
    if c["init"]:
        c["init_form"] = rng.choice(["list", "list", "tuple", "set", "gen", "iter", "alloc"])
    if rule == "maxw_ilp":
        # the property excludes the all-zero knapsack row (every undecided project costs 0): CBC aborts
        und = [j for j in range(n) if j not in c["init"]]
        if und and all(pb.F(c["costs"][j]) == 0 for j in und):
            c["costs"] = list(c["costs"])
            c["costs"][und[0]] = "1/1"
    return c


def _call(case):
    from pabutools import rules as R
    from pabutools.rules.maxwelfare import MaxAddUtilWelfareAlgo

    inst, projs, prof = E.build(case)
    sat = E.sat_class(case["sat"])
    tb = E.tie_breaking(case["tb"], case["perm"])
    init = [projs[j] for j in case["init"]]
    # the documented type is Iterable[Project]: hand the initial allocation over in every form
    form = case.get("init_form", "list")
    if form == "tuple":
        init = tuple(init)
    elif form == "set":
        init = set(init)
    elif form == "gen":
        init = (p for p in list(init))
    elif form == "iter":
        init = iter(list(init))
    elif form == "alloc":
        from pabutools.rules.budgetallocation import BudgetAllocation
        init = BudgetAllocation(init)
    res = case["resolute"]
    rule = case["rule"]
    if rule == "greedy":
        return R.greedy_utilitarian_welfare(inst, prof, sat_class=sat, is_sat_additive=case.get("additive_flag"),
                                            tie_breaking=tb, resoluteness=res, initial_budget_allocation=init), inst
    if rule == "maxw_pd":
        return R.max_additive_utilitarian_welfare(inst, prof, sat_class=sat, initial_budget_allocation=init,
                                                  inner_algo=MaxAddUtilWelfareAlgo.PRIMAL_DUAL), inst
    if rule == "maxw_ilp":
        return R.max_additive_utilitarian_welfare(inst, prof, sat_class=sat, initial_budget_allocation=init,
                                                  resoluteness=res, inner_algo=MaxAddUtilWelfareAlgo.ILP_SOLVER), inst
    if rule == "mes":
        return R.method_of_equal_shares(inst, prof, sat_class=sat, tie_breaking=tb, resoluteness=res,
                                        binary_sat=case.get("binary_sat")), inst
    if rule == "mes_iter":
        return R.method_of_equal_shares(inst, prof, sat_class=sat, tie_breaking=tb, resoluteness=res,
                                        binary_sat=case.get("binary_sat"),
                                        voter_budget_increment=pb.num(case["increment"])), inst
    if rule == "phragmen":
        loads = None if case.get("loads") is None else [pb.num(x) for x in case["loads"]]
        return R.sequential_phragmen(inst, prof, initial_loads=loads, initial_budget_allocation=init,
                                     tie_breaking=tb, resoluteness=res), inst
    if rule == "completion":
        return R.completion_by_rule_combination(
            inst, prof, [R.method_of_equal_shares, R.greedy_utilitarian_welfare],
            [{"sat_class": sat, "tie_breaking": tb}, {"sat_class": sat, "tie_breaking": tb}],
            resoluteness=res), inst
    if rule == "increase":
        base = case["base"]
        if base == "mes":
            f, params = R.method_of_equal_shares, {"sat_class": sat, "tie_breaking": tb}
        elif base == "greedy":
            f, params = R.greedy_utilitarian_welfare, {"sat_class": sat, "tie_breaking": tb}
        else:
            f, params = R.sequential_phragmen, {"tie_breaking": tb}
        return R.exhaustion_by_budget_increase(inst, prof, f, params, resoluteness=res,
                                               initial_budget_allocation=(init if case["init"] else None),
                                               exhaustive_stop=case["exhaustive_stop"],
                                               budget_step=pb.num(case["step"])), inst
    raise ValueError(rule)


def impl(case):
    if case.get("solver"):
        pb.install_solver_guard()
        pb.solver_reset()
    out, inst = _call(case)
    outs = [out] if case["resolute"] or case["rule"] == "maxw_pd" else list(out)
    names = {p.name for p in inst}
    res = []
    for o in outs:
        res.append([(pb.rank(p) if p.name in names else 1000) for p in o])
    o = {"outs": res, "budget_after": pb.qs(inst.budget_limit)}
    if case.get("solver"):
        st = pb.solver_state()
        if st["faults"]:
            o["solver_fault"] = st["last_fault"]
    return o


def post(cases, obs):
    cases, obs = core.default_post(cases, obs)
    for c, o in zip(cases, obs):
        # an exception raised by mip itself inside a solver-reaching case is a solver fault
        if isinstance(o, dict) and o.get("py_fail") and c.get("solver") and (
                "mip" in o.get("tb", "") or "InterfacingError" in o.get("exc", "")):
            del o["py_fail"]
            o["discard"] = True
    return cases, obs


def coq_case(case, o):
    return "(mkCase %s %s %s %s)" % (core.qlist(case["costs"]), q(case["budget"]), natl(case["init"]),
                                    lst([natl(w) for w in o["outs"]]))


def nontrivial(case, o):
    if any(len(w) > len(case["init"]) for w in o.get("outs", [])):
        key = {k: case[k] for k in case if k not in ("order",)}
        return key
    return None


def stats(cases, obs):
    d = {"by_rule": {}, "by_btype": {}, "irresolute": 0, "multi": 0, "with_init": 0, "solver_cases": 0,
         "empty_outcome": 0, "no_projects": 0, "several_outcomes": 0, "zero_cost_present": 0, "fractional": 0}
    for c, o in zip(cases, obs):
        if not isinstance(o, dict) or "outs" not in o:
            continue
        d["by_rule"][c["rule"]] = d["by_rule"].get(c["rule"], 0) + 1
        d["by_btype"][c["btype"]] = d["by_btype"].get(c["btype"], 0) + 1
        d["irresolute"] += not c["resolute"]
        d["multi"] += bool(c["multi"])
        d["with_init"] += bool(c["init"])
        d["solver_cases"] += bool(c.get("solver"))
        d["empty_outcome"] += all(len(w) == 0 for w in o["outs"])
        d["no_projects"] += len(c["costs"]) == 0
        d["several_outcomes"] += len(o["outs"]) > 1
        d["zero_cost_present"] += any(pb.F(x) == 0 for x in c["costs"])
        d["fractional"] += any(pb.F(x).denominator != 1 for x in c["costs"])
    return d


def shrink(case):
    n = len(case["costs"])
    nv = len(case["ballots"])
    for v in range(nv):
        if nv > 1:
            c = dict(case)
            c["ballots"] = case["ballots"][:v] + case["ballots"][v + 1:]
            if c.get("loads"):
                c["loads"] = case["loads"][:v] + case["loads"][v + 1:]
            yield c
    for j in range(n):
        c = dict(case)
        ren = lambda W: [x - (x > j) for x in W if x != j]
        c["costs"] = case["costs"][:j] + case["costs"][j + 1:]
        c["order"] = ren(case["order"])
        c["perm"] = ren(case["perm"])
        c["init"] = ren(case["init"])
        if case["btype"] in ("approval", "ordinal"):
            c["ballots"] = [ren(b) for b in case["ballots"]]
        else:
            c["ballots"] = [{str(int(k) - (int(k) > j)): v for k, v in b.items() if int(k) != j} for b in case["ballots"]]
        yield c
    if case.get("multi"):
        c = dict(case)
        c["multi"] = False
        yield c
    if case["init"]:
        c = dict(case)
        c["init"] = []
        yield c
