"""C15 -- instance predicates agree with brute force over subsets."""
from __future__ import annotations

import itertools
from fractions import Fraction

from .. import core
from ..core import q, lst, natl, boolc, opt, pair
from .. import pb

ID = "C15"
ORACLE = "Oracle.C15"
PROPS = ["Props/C15.v", "Props/C15gen.v"]
LEVEL = "proof"
SHARD = 120
CODES = {
    1: ("oracle", "Instance.is_feasible differs from 'total cost within the budget'"),
    2: ("oracle", "Instance.is_exhaustive differs from 'no other available project fits'"),
    3: ("model", "budget_allocations() differs from the model's enumeration (order of the powerset)"),
    4: ("oracle", "budget_allocations() is not 'every feasible subset exactly once'"),
    5: ("oracle", "Instance.is_trivial differs from 'everything fits or nothing does'"),
    6: ("model", "max_budget_allocation_cardinality differs from the cheapest-first model"),
    7: ("oracle", "max_budget_allocation_cardinality differs from the brute-force maximum"),
    8: ("oracle", "max_budget_allocation_cost differs from the exact brute-force maximum"),
    core.RAISED: ("oracle", "the call raised / the interpreter died outside the solver"),
}
RULE = ("instances with 0..8 projects, costs from tie-rich pools (zeros, equal costs, halves/thirds, one "
        "project dearer than the budget), budgets from 0 to beyond the total cost and on subset sums; every "
        "subset queried when <=6 projects (sampled above); non-trivial = distinct instance on which at least "
        "one feasible and one infeasible subset exist")
ASSUMPTIONS = [
    "hand-written Gallina model of instance.py/utils.py tied to the code by differential execution only",
    "gmpy2 mpq arithmetic = exact Q",
    "CBC (max_budget_allocation_cost): every answer re-validated exactly; invalid answers and solver crashes are discarded",
]
TRUSTED = ["Model/InstanceM.v mirrors pabutools/election/instance.py, pabutools/utils.py (modelled, not verified)"]
EXPLANATION = ("Theorems (unbounded): is_feasible/is_exhaustive iff their definitions; powerset = all subsequences, "
               "each once; budget_allocations = every feasible subset once; cheapest-first count = maximum "
               "cardinality (exchange argument); brute-force oracles are the true optima; is_trivial iff everything "
               "fits or nothing does.  Tie: implementation answers compared in Coq with model and oracles.")

# near-boundary pool: totals that miss or exceed a round budget by 1e-7 .. 1e-12 (a tolerance / float shortcut in a
# comparison shows here), and integers beyond 2**53
NEAR = ["1/2", "1/2", "2000001/4000000", "1999999/4000000", "1/3", "333333333334/1000000000000",
        "1000000000001/1000000000000", 1, "999999999999/1000000000000"]
BIG = [2 ** 58 + 1, 2 ** 58 + 2, 2 ** 58 + 3, 2 ** 57, 2 ** 58]

POOLS = [
    [0, 1, 1, 2, 2, 3],
    [1, 2, 3, 4, 5],
    ["1/2", "1/3", "3/4", "2/3", "1/7", 1],
    [2, 2, 2, 2],
    [0, 0, 1],
    ["5/2", "7/3", 5, 10, "1/10"],
]


def budget(tier):
    return 260 if tier == "quick" else 4000


def gen(rng, i, tier):
    kind = "maxcost" if i % 4 == 3 else "pure"
    n = rng.choice([0, 1, 2, 3, 3, 4, 4, 5, 5, 6, 7, 8]) if kind == "pure" else rng.choice([1, 2, 3, 4, 5, 6])
    pool = rng.choice(POOLS)
    if i % 7 == 5 and kind == "pure":
        # (not for the MIP-backed maximum-cost helper: differences below the solver's own tolerances are
        # the solver's business, excluded by the property)
        pool = NEAR if i % 14 == 5 else BIG
    costs = [pb.qs(rng.choice(pool)) for _ in range(n)]
    if kind == "maxcost" and all(pb.F(c) == 0 for c in costs):
        costs[0] = "1/1"     # an all-zero knapsack row aborts CBC (excluded by the property)
    tot = sum((pb.F(c) for c in costs), Fraction(0))
    mode = rng.randrange(7)
    if mode == 0 or n == 0:
        b = Fraction(rng.choice([0, 1, 2, 3]))
    elif mode == 1:
        b = tot
    elif mode == 2:
        b = tot + rng.choice([1, Fraction(1, 2)])
    elif mode == 3:
        b = min(pb.F(c) for c in costs)
    elif mode == 4:
        k = rng.randrange(1, n + 1)
        b = sum((pb.F(c) for c in rng.sample(costs, k)), Fraction(0))
    elif mode == 5:
        b = tot * Fraction(rng.randrange(0, 9), 8)
    else:
        b = max(Fraction(0), min(pb.F(c) for c in costs) - Fraction(1, 3))
    if i % 14 == 5 and n and kind == "pure":
        b = Fraction(rng.choice([1, 1, 2, "3/2", "5/6"]))
    order = list(range(n))
    rng.shuffle(order)
    case = {"kind": kind, "costs": costs, "budget": pb.qs(b), "order": order, "solver": kind == "maxcost"}
    allsub = [list(s) for r in range(n + 1) for s in itertools.combinations(range(n), r)]
    if kind == "pure":
        subs = allsub if n <= 6 else [sorted(rng.sample(range(n), rng.randrange(0, n + 1))) for _ in range(48)]
        case["subsets"] = subs
        av = []
        for _ in range(6):
            if n:
                W = sorted(rng.sample(range(n), rng.randrange(0, n + 1)))
                A = sorted(rng.sample(range(n), rng.randrange(0, n + 1)))
                av.append([W, A])
        case["exh_avail"] = av
        qs_ = []
        for _ in range(5):
            W = sorted(rng.sample(range(n), rng.randrange(0, n + 1))) if n else []
            bb = rng.choice([b, b / 2, tot, Fraction(0), b + 1])
            qs_.append([W, pb.qs(bb)])
        case["card_queries"] = qs_
        if n and rng.random() < 0.4:
            # history: the same Instance object is queried, changed in place (same number of projects), and
            # queried again -- the answers must be those of the instance as it is NOW (no stale state)
            j = rng.randrange(n)
            newc = pb.qs(rng.choice(pool))
            kind_m = rng.choice(["swap", "cost", "budget", "swap"])
            fc, fb = list(costs), pb.qs(b)
            if kind_m == "budget":
                fb = pb.qs(rng.choice([tot, Fraction(0), b + 1, min(pb.F(c) for c in costs), b / 2]))
            else:
                fc[j] = newc
            case["mutate"] = {"kind": kind_m, "j": j, "cost": newc, "budget": fb}
            case["final_costs"], case["final_budget"] = fc, fb
    else:
        qs_ = []
        for _ in range(2):
            W = sorted(rng.sample(range(n), rng.randrange(1, n + 1)))
            if all(pb.F(costs[j]) == 0 for j in W):
                continue
            bb = rng.choice([b, tot / 2, b + Fraction(1, 3)])
            qs_.append([W, pb.qs(bb)])
        case["cost_queries"] = qs_
    return case


def _pure_queries(case, inst, projs):
    from pabutools.election.instance import max_budget_allocation_cardinality

    out = {}
    out["feas"] = [bool(inst.is_feasible([projs[j] for j in W])) for W in case["subsets"]]
    out["exh"] = [bool(inst.is_exhaustive([projs[j] for j in W])) for W in case["subsets"]]
    out["exh_av"] = [bool(inst.is_exhaustive([projs[j] for j in W], [projs[j] for j in A]))
                     for W, A in case["exh_avail"]]
    out["balloc"] = [pb.ranks(b) for b in inst.budget_allocations()]
    try:
        out["trivial"] = bool(inst.is_trivial())
    except ValueError:
        out["trivial"] = "raised"
    out["card"] = [int(max_budget_allocation_cardinality([projs[j] for j in W], pb.num(b)))
                   for W, b in case["card_queries"]]
    return out


def impl(case):
    from pabutools.election.instance import max_budget_allocation_cardinality, max_budget_allocation_cost

    inst, projs = pb.make_instance(case["costs"], case["budget"], case["order"])
    out = {"enum": pb.ranks(list(inst))}
    if case["kind"] == "pure" and case.get("mutate"):
        from pabutools.election import Project
        _ = _pure_queries(case, inst, projs)          # first round of queries on the original instance
        mu = case["mutate"]
        if mu["kind"] == "budget":
            inst.budget_limit = pb.num(mu["budget"])
        elif mu["kind"] == "cost":
            projs[mu["j"]].cost = pb.num(mu["cost"])
        else:
            inst.discard(projs[mu["j"]])
            projs[mu["j"]] = Project(pb.pname(mu["j"]), pb.num(mu["cost"]))
            inst.add(projs[mu["j"]])
        out["enum"] = pb.ranks(list(inst))
    if case["kind"] == "pure":
        out.update(_pure_queries(case, inst, projs))
        return out
    if False:
        out["feas"] = [bool(inst.is_feasible([projs[j] for j in W])) for W in case["subsets"]]
        out["exh"] = [bool(inst.is_exhaustive([projs[j] for j in W])) for W in case["subsets"]]
        out["exh_av"] = [bool(inst.is_exhaustive([projs[j] for j in W], [projs[j] for j in A]))
                         for W, A in case["exh_avail"]]
        out["balloc"] = [pb.ranks(b) for b in inst.budget_allocations()]
        try:
            out["trivial"] = bool(inst.is_trivial())
        except ValueError:
            out["trivial"] = "raised"
        out["card"] = [int(max_budget_allocation_cardinality([projs[j] for j in W], pb.num(b)))
                       for W, b in case["card_queries"]]
    else:
        pb.install_solver_guard()
        pb.solver_reset()
        res = []
        for W, b in case["cost_queries"]:
            res.append(pb.qs(max_budget_allocation_cost([projs[j] for j in W], pb.num(b))))
        out["cost"] = res
        st = pb.solver_state()
        if st["faults"]:
            out["solver_fault"] = st["last_fault"]
    return out


def coq_case(case, o):
    n = len(case["costs"])
    allp = list(range(n))
    if case["kind"] == "pure":
        feas = lst([pair(natl(W), boolc(r)) for W, r in zip(case["subsets"], o["feas"])])
        exh = [pair(natl(W), natl(allp), boolc(r)) for W, r in zip(case["subsets"], o["exh"])]
        exh += [pair(natl(W), natl(A), boolc(r)) for (W, A), r in zip(case["exh_avail"], o["exh_av"])]
        balloc = "(Some %s)" % lst([natl(b) for b in o["balloc"]])
        triv = "(Some None)" if o["trivial"] == "raised" else "(Some (Some %s))" % boolc(o["trivial"])
        card = lst([pair(natl(W), q(b), core.nat(r)) for (W, b), r in zip(case["card_queries"], o["card"])])
        cost = "[]"
        exh = lst(exh)
    else:
        feas, exh, balloc, triv, card = "[]", "[]", "None", "None", "[]"
        cost = lst([pair(natl(W), q(b), q(r)) for (W, b), r in zip(case["cost_queries"], o["cost"])])
    return "(mkCase %s %s %s %s %s %s %s %s %s)" % (
        core.qlist(case.get("final_costs", case["costs"])), q(case.get("final_budget", case["budget"])),
        natl(o["enum"]), feas, exh, balloc, triv, card, cost)


def nontrivial(case, o):
    if case["kind"] == "pure":
        if True in o["feas"] and False in o["feas"]:
            return ["pure", case["costs"], case["budget"]]
        return None
    if case.get("cost_queries"):
        return ["maxcost", case["costs"], case["cost_queries"]]
    return None


def stats(cases, obs):
    d = {"pure": 0, "maxcost": 0, "fractional_costs": 0, "has_zero_cost": 0, "equal_costs": 0,
         "nproj_hist": {}, "trivial_true": 0, "trivial_false": 0}
    for c, o in zip(cases, obs):
        if o is None:
            continue
        d[c["kind"]] += 1
        cs = [pb.F(x) for x in c["costs"]]
        d["fractional_costs"] += any(x.denominator != 1 for x in cs)
        d["has_zero_cost"] += any(x == 0 for x in cs)
        d["equal_costs"] += len(set(cs)) < len(cs)
        d["nproj_hist"][str(len(cs))] = d["nproj_hist"].get(str(len(cs)), 0) + 1
        if isinstance(o, dict) and o.get("trivial") is True:
            d["trivial_true"] += 1
        if isinstance(o, dict) and o.get("trivial") is False:
            d["trivial_false"] += 1
    return d


def shrink(case):
    n = len(case["costs"])
    # drop a project (history cases keep their projects: the mutation refers to an index)
    for j in (range(n) if not case.get("mutate") else []):
        c = dict(case)
        c["costs"] = case["costs"][:j] + case["costs"][j + 1:]
        ren = lambda W: [x - (x > j) for x in W if x != j]
        c["order"] = ren(case["order"])
        if case["kind"] == "pure":
            seen = []
            for W in case["subsets"]:
                W2 = ren(W)
                if W2 not in seen:
                    seen.append(W2)
            c["subsets"] = seen
            c["exh_avail"] = [[ren(W), ren(A)] for W, A in case["exh_avail"]]
            c["card_queries"] = [[ren(W), b] for W, b in case["card_queries"]]
        else:
            c["cost_queries"] = [[ren(W), b] for W, b in case["cost_queries"] if ren(W)]
        yield c
    if case.get("mutate"):
        c = dict(case)
        for k in ("mutate", "final_costs", "final_budget"):
            c.pop(k, None)
        yield c
    # fewer queries
    for key in ("exh_avail", "card_queries", "cost_queries"):
        if len(case.get(key, [])) > 1:
            for j in range(len(case[key])):
                c = dict(case)
                c[key] = [case[key][j]]
                yield c
