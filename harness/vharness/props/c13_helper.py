"""C13 helper process: started once per (worker, PYTHONHASHSEED); reads one JSON case per line on stdin, runs
every call of the case on every presentation of its election with the REAL library and prints one JSON
observation per line (see c13.py for the format of a case)."""
from __future__ import annotations

import json
import sys
import traceback
from fractions import Fraction

# how the welfare of a measure reacts to multiplying all costs and the budget by k:  "k" = multiplied by k,
# "1" = unchanged.  Only exactly computed (rational) measures are used.
SAT_SCALING = {
    "Cost_Sat": "k", "Effort_Sat": "k",
    "Cardinality_Sat": "1", "Relative_Cardinality_Sat": "1", "Relative_Cost_Approx_Normaliser_Sat": "1",
    "Additive_Cardinal_Sat": "1", "Additive_Borda_Sat": "1", "CC_Sat": "1",
}


def _frac(x):
    try:
        return Fraction(int(x.numerator), int(x.denominator))
    except AttributeError:
        return Fraction(x)


def _qs(x):
    x = _frac(x)
    return "%d/%d" % (x.numerator, x.denominator)


def build(case, pres):
    """the election of the case as presented by `pres`"""
    from vharness import pb

    k = Fraction(pres["scale"])
    costs = [Fraction(c) * k for c in case["costs"]]
    budget = Fraction(case["budget"]) * k
    inst, projs = pb.make_instance(costs, budget, pres["order"])
    ballots = [case["ballots"][v] for v in pres["vperm"]]
    prof = pb.make_profile(case["btype"], inst, projs, ballots, case.get("multi", False))
    return inst, projs, prof, k


def run_call(call, inst, projs, prof, k, sat_cache):
    from pabutools import rules as R
    from pabutools.rules.maxwelfare import MaxAddUtilWelfareAlgo
    from vharness import pb, elections as E

    rule = call["rule"]
    tb = E.tie_breaking(call.get("tb", "lexico"))
    if rule == "phragmen":
        out = R.sequential_phragmen(inst, prof, tie_breaking=tb)
        return {"set": sorted(pb.ranks(out)), "val": "0/1"}
    sat = E.sat_class(call["sat"])
    if rule == "greedy":
        out = R.greedy_utilitarian_welfare(inst, prof, sat_class=sat, tie_breaking=tb,
                                           is_sat_additive=call.get("additive"))
        return {"set": sorted(pb.ranks(out)), "val": "0/1"}
    if rule == "mes":
        out = R.method_of_equal_shares(inst, prof, sat_class=sat, tie_breaking=tb)
        return {"set": sorted(pb.ranks(out)), "val": "0/1"}
    if rule == "mes_iter":
        # the increment is money: it is presented in the same unit as costs and budget
        out = R.method_of_equal_shares(inst, prof, sat_class=sat, tie_breaking=tb,
                                       voter_budget_increment=pb.num(Fraction(call["inc"]) * k))
        return {"set": sorted(pb.ranks(out)), "val": "0/1"}
    if rule == "maxw":
        out = R.max_additive_utilitarian_welfare(inst, prof, sat_class=sat,
                                                 inner_algo=MaxAddUtilWelfareAlgo.PRIMAL_DUAL)
        sp = sat_cache.get(call["sat"])
        if sp is None:
            sp = prof.as_sat_profile(sat_class=sat)
            sat_cache[call["sat"]] = sp
        w = _frac(sp.total_satisfaction(list(out)))
        if SAT_SCALING[call["sat"]] == "k":
            w = w / k
        # feasibility of the returned set is part of "the welfare ATTAINED": an infeasible set is reported as -1
        if sum((_frac(p.cost) for p in out), Fraction(0)) > _frac(inst.budget_limit):
            w = Fraction(-1)
        return {"set": [], "val": _qs(w), "chosen": sorted(pb.ranks(out))}
    raise ValueError(rule)


def run_case(case):
    from vharness import pb

    runs = [[None] * len(case["pres"]) for _ in case["calls"]]
    enum0 = None
    for j, pres in enumerate(case["pres"]):
        inst, projs, prof, k = build(case, pres)
        if j == 0:
            enum0 = [pb.rank(p) for p in inst]
        sat_cache = {}
        for ci, call in enumerate(case["calls"]):
            a = run_call(call, inst, projs, prof, k, sat_cache)
            b = run_call(call, inst, projs, prof, k, sat_cache) if pres.get("twice") else None
            runs[ci][j] = [a, b]
    return {"runs": runs, "enum0": enum0}


def main():
    for line in sys.stdin:
        line = line.strip()
        if not line:
            continue
        try:
            obs = run_case(json.loads(line))
        except BaseException as e:  # noqa
            if isinstance(e, (KeyboardInterrupt, SystemExit)):
                raise
            obs = {"exc": type(e).__name__ + ": " + str(e)[:300], "tb": traceback.format_exc()[-1500:]}
        sys.stdout.write(json.dumps(obs) + "\n")
        sys.stdout.flush()


if __name__ == "__main__":
    main()
