"""C13 helper process: started once per (worker, PYTHONHASHSEED); reads one JSON case per line on stdin, runs
every call of the case on every presentation of its election with the REAL library and prints one JSON
observation per line (see c13.py for the format of a case)."""
from __future__ import annotations

import json
import sys
import traceback
from fractions import Fraction

# how the welfare of a measure reacts to multiplying all costs and the budget by k:  "k" = multiplied by k,
# "1" = unchanged.  Only exactly computed (rational) measures are used.
SAT_SCALING = {
    "Cost_Sat": "k", "Effort_Sat": "k",
    "Cardinality_Sat": "1", "Relative_Cardinality_Sat": "1", "Relative_Cost_Approx_Normaliser_Sat": "1",
    "Additive_Cardinal_Sat": "1", "Additive_Borda_Sat": "1", "CC_Sat": "1",
}


def _frac(x):
    try:
        return Fraction(int(x.numerator), int(x.denominator))
    except AttributeError:
        return Fraction(x)


def _qs(x):
    x = _frac(x)
    return "%d/%d" % (x.numerator, x.denominator)


def make_prof(case, inst, projs, ballots, mults, vperm=None):
    """the profile object: a list Profile (optionally converted) or, when multiplicities are given, an
    approval MultiProfile filled directly with the counts (city-sized electorates)"""
    from vharness import pb

    if vperm is None:
        vperm = list(range(len(ballots)))
    if mults is None:
        return pb.make_profile(case["btype"], inst, projs, [ballots[v] for v in vperm], case.get("multi", False))
    from pabutools.election import ApprovalMultiProfile, FrozenApprovalBallot

    prof = ApprovalMultiProfile(instance=inst)
    for v in vperm:
        prof[FrozenApprovalBallot([projs[i] for i in ballots[v]])] = int(mults[v])
    return prof


def build(case, pres):
    """the election of the case as presented by `pres`"""
    from vharness import pb

    k = Fraction(pres["scale"])
    costs = [Fraction(c) * k for c in case["costs"]]
    budget = Fraction(case["budget"]) * k
    inst, projs = pb.make_instance(costs, budget, pres["order"])
    prof = make_prof(case, inst, projs, case["ballots"], case.get("mults"), pres["vperm"])
    return inst, projs, prof, k


def replay_history(case, pres, inst, projs, prof, inits):
    """what happened in this process BEFORE the election is evaluated (presentation kind 5): other elections on
    the same Instance object / the same profile object with another Instance / the same Project objects with
    other costs, run through the same calls (hence through the same module-level tie-breaking singletons).
    Their results are irrelevant; the election under test is evaluated afterwards on the very same objects."""
    from pabutools.election import Instance
    from vharness import pb

    h = pres["hist"]
    sink = {}
    if h["mode"] == "inst":
        for eb in h["earlier"]:
            prof_e = make_prof(case, inst, projs, eb, None)
            for call, init in zip(case["calls"], inits):
                run_call(call, inst, projs, prof_e, Fraction(1), sink, init)   # the caller's init object is reused
                sink.clear()
    elif h["mode"] == "prof":
        inst2 = Instance()
        for p in projs:
            inst2.add(p)
        inst2.budget_limit = pb.num(h["budget2"])
        for call in case["calls"]:
            if "init" in call:
                continue                    # the initial allocation need not be feasible for the other budget
            run_call(call, inst2, projs, prof, Fraction(1), sink)
            sink.clear()
    elif h["mode"] == "cost":
        old = [p.cost for p in projs]
        for p, c in zip(projs, h["costs2"]):
            p.cost = pb.num(c)
        try:
            prof_e = make_prof(case, inst, projs, h["earlier"][0], None)
            for call in case["calls"]:
                if "init" in call:
                    continue
                run_call(call, inst, projs, prof_e, Fraction(1), sink)
                sink.clear()
        finally:
            for p, c in zip(projs, old):
                p.cost = c
    else:
        raise ValueError(h["mode"])


INIT_FORMS = ["list", "tuple", "ba"]


def make_init(call, projs, form):
    """the initial budget allocation of a call in one of the forms a caller may pass it; the SAME object is handed
    to every repetition of the call (and to the earlier elections of a process-history presentation)"""
    if "init" not in call:
        return None
    ps = [projs[i] for i in call["init"]]
    if form == "list":
        return ps
    if form == "tuple":
        return tuple(ps)
    from pabutools.rules import BudgetAllocation

    return BudgetAllocation(ps)


def run_call(call, inst, projs, prof, k, sat_cache, init=None):
    from pabutools import rules as R
    from pabutools.rules.maxwelfare import MaxAddUtilWelfareAlgo
    from vharness import pb, elections as E

    rule = call["rule"]
    tb = E.tie_breaking(call.get("tb", "lexico"))
    kw = {}
    if "init" in call:
        if init is None:
            raise ValueError("call with an initial allocation evaluated without one")
        kw["initial_budget_allocation"] = init
    if rule == "phragmen":
        out = R.sequential_phragmen(inst, prof, tie_breaking=tb, **kw)
        return {"set": sorted(pb.ranks(out)), "val": "0/1"}
    sat = E.sat_class(call["sat"])
    if rule == "greedy":
        out = R.greedy_utilitarian_welfare(inst, prof, sat_class=sat, tie_breaking=tb,
                                           is_sat_additive=call.get("additive"), **kw)
        return {"set": sorted(pb.ranks(out)), "val": "0/1"}
    if rule == "mes":
        out = R.method_of_equal_shares(inst, prof, sat_class=sat, tie_breaking=tb, **kw)
        return {"set": sorted(pb.ranks(out)), "val": "0/1"}
    if rule == "mes_iter":
        # the increment is money: it is presented in the same unit as costs and budget
        out = R.method_of_equal_shares(inst, prof, sat_class=sat, tie_breaking=tb,
                                       voter_budget_increment=pb.num(Fraction(call["inc"]) * k))
        return {"set": sorted(pb.ranks(out)), "val": "0/1"}
    if rule == "maxw":
        out = R.max_additive_utilitarian_welfare(inst, prof, sat_class=sat,
                                                 inner_algo=MaxAddUtilWelfareAlgo.PRIMAL_DUAL, **kw)
        sp = sat_cache.get(call["sat"])
        if sp is None:
            sp = prof.as_sat_profile(sat_class=sat)
            sat_cache[call["sat"]] = sp
        w = _frac(sp.total_satisfaction(list(out)))
        if SAT_SCALING[call["sat"]] == "k":
            w = w / k
        # feasibility of the returned set is part of "the welfare ATTAINED": an infeasible set is reported as -1
        if sum((_frac(p.cost) for p in out), Fraction(0)) > _frac(inst.budget_limit):
            w = Fraction(-1)
        return {"set": [], "val": _qs(w), "chosen": sorted(pb.ranks(out))}
    raise ValueError(rule)


def run_case(case):
    from vharness import pb

    runs = [[None] * len(case["pres"]) for _ in case["calls"]]
    enum0 = None
    for j, pres in enumerate(case["pres"]):
        inst, projs, prof, k = build(case, pres)
        if j == 0:
            enum0 = [pb.rank(p) for p in inst]
        # initial allocations: a BudgetAllocation object wherever objects are reused (repetition, process history),
        # otherwise the forms in turn; every outcome is snapshotted (sorted ranks) right after its call
        inits = []
        for ci, call in enumerate(case["calls"]):
            form = "ba" if (pres.get("twice") or pres.get("hist")) else INIT_FORMS[(j + ci) % len(INIT_FORMS)]
            inits.append(make_init(call, projs, form))
        if pres.get("hist"):
            replay_history(case, pres, inst, projs, prof, inits)
        sat_cache = {}
        for ci, call in enumerate(case["calls"]):
            a = run_call(call, inst, projs, prof, k, sat_cache, inits[ci])
            b = run_call(call, inst, projs, prof, k, sat_cache, inits[ci]) if pres.get("twice") else None
            runs[ci][j] = [a, b]
    return {"runs": runs, "enum0": enum0}


def main():
    for line in sys.stdin:
        line = line.strip()
        if not line:
            continue
        try:
            obs = run_case(json.loads(line))
        except BaseException as e:  # noqa
            if isinstance(e, (KeyboardInterrupt, SystemExit)):
                raise
            obs = {"exc": type(e).__name__ + ": " + str(e)[:300], "tb": traceback.format_exc()[-1500:]}
        sys.stdout.write(json.dumps(obs) + "\n")
        sys.stdout.flush()


if __name__ == "__main__":
    main()
