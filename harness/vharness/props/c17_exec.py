"""C17 executor: builds election containers of the REAL library from a JSON case, applies a sequence of
container operations and records, after every operation, what came back (class, election attributes, ballots
inside).  Used by props/c17.py (impl runs in a worker subprocess)."""
from __future__ import annotations

import copy
import pickle
from collections import Counter
from fractions import Fraction

# ---- class tags (shared with Model/Containers.v) -------------------------------------------------
CLASSES = [
    "Plain",                                                                          # 0
    "Instance",                                                                       # 1
    "ApprovalBallot", "CardinalBallot", "CumulativeBallot", "OrdinalBallot",          # 2..5
    "FrozenApprovalBallot", "FrozenCardinalBallot", "FrozenCumulativeBallot", "FrozenOrdinalBallot",  # 6..9
    "ApprovalProfile", "CardinalProfile", "CumulativeProfile", "OrdinalProfile",      # 10..13
    "ApprovalMultiProfile", "CardinalMultiProfile", "CumulativeMultiProfile", "OrdinalMultiProfile",  # 14..17
    "SatisfactionProfile", "SatisfactionMultiProfile",                                # 18, 19
    "BudgetAllocation",                                                               # 20
]
TAG = {n: i for i, n in enumerate(CLASSES)}

PROFILE_BASE = ["instance", "ballot_validation", "ballot_type"]
ATTRS = {
    "Instance": ["budget_limit", "categories", "targets", "file_path", "file_name", "parsing_errors", "meta",
                 "project_meta"],
    "SatisfactionProfile": ["instance", "sat_class"],
    "SatisfactionMultiProfile": ["instance", "sat_class"],
    "BudgetAllocation": ["details"],
}
for _b in CLASSES[2:10]:
    ATTRS[_b] = ["name", "meta"]
for _p in ("ApprovalProfile", "ApprovalMultiProfile"):
    ATTRS[_p] = PROFILE_BASE + ["legal_min_length", "legal_max_length", "legal_min_cost", "legal_max_cost"]
for _p in ("CardinalProfile", "CardinalMultiProfile"):
    ATTRS[_p] = PROFILE_BASE + ["legal_min_length", "legal_max_length", "legal_min_score", "legal_max_score"]
for _p in ("CumulativeProfile", "CumulativeMultiProfile"):
    ATTRS[_p] = PROFILE_BASE + ["legal_min_length", "legal_max_length", "legal_min_score", "legal_max_score",
                                "legal_min_total_score", "legal_max_total_score"]
for _p in ("OrdinalProfile", "OrdinalMultiProfile"):
    ATTRS[_p] = PROFILE_BASE + ["legal_min_length", "legal_max_length"]

MISSING, UNKNOWN = 999, 998


class Env:
    """the objects of one case"""

    def __init__(self, case):
        import pabutools.election as E
        from pabutools.election import ballot as B, profile as P
        from pabutools.election.satisfaction import SatisfactionProfile, SatisfactionMultiProfile, Cost_Sat, \
            Cardinality_Sat
        from pabutools.rules.budgetallocation import BudgetAllocation, AllocationDetails
        from pabutools.fractions import frac

        self.E, self.B, self.P = E, B, P
        self.cls = {n: None for n in CLASSES}
        self.cls["Instance"] = E.Instance
        for n in CLASSES[2:10]:
            self.cls[n] = getattr(B, n)
        for n in CLASSES[10:18]:
            self.cls[n] = getattr(P, n)
        self.cls["SatisfactionProfile"] = SatisfactionProfile
        self.cls["SatisfactionMultiProfile"] = SatisfactionMultiProfile
        self.cls["BudgetAllocation"] = BudgetAllocation
        self.projects = [E.Project("p%02d" % i, c) for i, c in enumerate([1, 2, 2, 3])]
        det = AllocationDetails()
        det.tag = "d1"
        self.pools = {
            "budget_limit": [5, frac(7, 2)],
            "categories": [{"c1"}, {"c1", "c2"}],
            "targets": [{"t"}],
            "file_path": ["a/b.pb"],
            "file_name": ["b.pb"],
            "parsing_errors": [True],
            "meta": [{"description": "x"}, {"k": "v", "n": "1"}],
            "project_meta": [{"p00": {"x": "1"}}],
            "name": ["v1", "v2"],
            "ballot_validation": [False],
            "legal_min_length": [1, 0], "legal_max_length": [3, 2], "legal_min_cost": [1, 0], "legal_max_cost": [4],
            "legal_min_score": [0], "legal_max_score": [5], "legal_min_total_score": [1, 0],
            "legal_max_total_score": [10],
            "sat_class": [Cost_Sat, Cardinality_Sat],          # id 1 = Cost_Sat (what the as_sat op asks for)
            "details": [det],
        }
        self.defaults = {
            "budget_limit": 0, "categories": set(), "targets": set(), "file_path": "", "file_name": "",
            "parsing_errors": False, "meta": {}, "project_meta": {}, "name": "", "ballot_validation": True,
            "sat_class": None, "details": None,
        }
        self.inst_nproj = case.get("inst_nproj", 3)
        self.instance = self.make("Instance", case["inst_attrs"], None)
        self.instance.clear()
        self.instance.update(self.projects[:self.inst_nproj])
        # the instance object the CURRENT object is linked to (a deep copy / pickle round trip links to a copy)
        self.ref = self.instance
        self.allow_copy = False

    # ---- attribute values <-> ids -----------------------------------------------------------------
    def value(self, attr, k):
        v = self.pools[attr][k - 1]
        return copy.copy(v) if isinstance(v, (dict, set)) else v

    def ballot_type_value(self, clsname, k):
        # 1 = the base class of the side (accepts every ballot of that side)
        return self.B.FrozenBallot if "Multi" in clsname else self.B.Ballot

    def default_ballot_type(self, clsname):
        kind = clsname.replace("MultiProfile", "").replace("Profile", "")
        return getattr(self.B, ("Frozen" if "Multi" in clsname else "") + kind + "Ballot")

    def attr_id(self, obj, attr):
        if not hasattr(obj, attr):
            return MISSING
        v = getattr(obj, attr)
        clsname = type(obj).__name__
        if attr == "instance":
            # 1 = linked to the SAME instance object (an equal copy only after deepcopy / pickle);
            # 997 = an equal but different object where the same one is required; 0 = a fresh default Instance()
            if type(v) is not self.E.Instance:
                return UNKNOWN
            for ref in (self.ref, self.instance):
                if v is ref:
                    return 1
            ids = self.attr_ids(v)
            for ref in (self.ref, self.instance):
                if set(v) == set(ref) and ids == self.attr_ids(ref):
                    return 1 if self.allow_copy else 997
            if len(v) == 0 and all(i == 0 for i in ids):
                return 0
            return UNKNOWN
        if attr == "ballot_type":
            # 0 default of the class, 1 base class of its side, 2 / 3 the same for the profile class of the same kind on
            # the other side (a profile built from a multiprofile inherits the frozen ballot type and vice versa)
            if clsname in ATTRS and v is self.default_ballot_type(clsname):
                return 0
            if v is self.ballot_type_value(clsname, 1):
                return 1
            oth = clsname.replace("MultiProfile", "Profile") if "Multi" in clsname else clsname.replace("Profile", "MultiProfile")
            if v is self.default_ballot_type(oth):
                return 2
            if v is self.ballot_type_value(oth, 1):
                return 3
            return UNKNOWN
        if attr == "details":
            if v is None:
                return 0
            return 1 if getattr(v, "tag", None) == "d1" else UNKNOWN
        if attr == "sat_class":
            if v is None:
                return 0
            for k, c in enumerate(self.pools[attr], 1):
                if v is c:
                    return k
            return UNKNOWN
        if attr.startswith("legal_"):
            if v is None:
                return 0
        else:
            d = self.defaults[attr]
            if type(v) is type(d) and v == d:
                return 0
        for k, c in enumerate(self.pools[attr], 1):
            if type(v) is type(c) and v == c:
                return k
        return UNKNOWN

    def attr_ids(self, obj):
        return [self.attr_id(obj, a) for a in ATTRS[type(obj).__name__]]

    # ---- element pool of a profile ------------------------------------------------------------------
    def elements(self, clsname):
        """id -> ballot; 0,1,2 right-typed with distinct contents, then wrong-typed ones"""
        B, p = self.B, self.projects
        mk = {
            "Approval": lambda ps: B.ApprovalBallot(ps),
            "Cardinal": lambda ps: B.CardinalBallot({x: i + 1 for i, x in enumerate(ps)}),
            "Cumulative": lambda ps: B.CumulativeBallot({x: i + 1 for i, x in enumerate(ps)}),
            "Ordinal": lambda ps: B.OrdinalBallot(ps),
        }
        kind = clsname.replace("MultiProfile", "").replace("Profile", "")
        others = [k for k in ("Approval", "Cardinal", "Cumulative", "Ordinal") if k != kind]
        right = [mk[kind](ps) for ps in ([p[0]], [p[0], p[1]], [p[2], p[1], p[3]])]
        wrong = [mk[others[0]]([p[3]]), mk[others[1]]([p[3], p[0]]), mk[others[2]]([p[1]])]   # contents all distinct:
        # a FrozenApprovalBallot and a FrozenOrdinalBallot with the same projects are EQUAL tuples (one Counter key)
        els = right + wrong
        if "Multi" in clsname:
            els = [b.frozen() for b in els] + [right[0]]        # a mutable ballot is wrong in a multiprofile
        else:
            els = els + [right[0].frozen()]                      # a frozen ballot is wrong in a list profile
        els.append({p[0]})                                       # not a ballot at all
        for i, b in enumerate(els[:-1]):
            b.name = "e%d" % i
        return els

    @staticmethod
    def elt_tag(b):
        return TAG.get(type(b).__name__, 0)

    # ---- construction -----------------------------------------------------------------------------
    def make(self, clsname, ids, payload, variant=0, empty=False):
        cls = self.cls[clsname]
        kw = {}
        for a, k in zip(ATTRS[clsname], ids):
            if k == 0:
                continue
            if a == "instance":
                kw[a] = self.instance
            elif a == "ballot_type":
                kw[a] = self.ballot_type_value(clsname, k)
            else:
                kw[a] = self.value(a, k)
        p = self.projects
        if empty:
            p = []
        if clsname == "Instance":
            return cls(p[:3] if variant == 0 else p[1:], **kw)
        if clsname in ("ApprovalBallot", "FrozenApprovalBallot", "OrdinalBallot", "FrozenOrdinalBallot"):
            return cls(([p[0], p[2]] if variant == 0 else [p[2], p[3]]) if p else [], **kw)
        if "Ballot" in clsname:
            return cls(({p[0]: 1, p[1]: 2} if variant == 0 else {p[1]: 3, p[3]: 1}) if p else {}, **kw)
        if clsname == "BudgetAllocation":
            return cls(p[:2] if variant == 0 else p[2:], **kw)
        if clsname in ("SatisfactionProfile", "SatisfactionMultiProfile"):
            from pabutools.election.satisfaction import Cost_Sat
            p = self.projects
            prof = self.P.ApprovalProfile([] if empty else [self.B.ApprovalBallot([p[0]], name="s0"),
                                           self.B.ApprovalBallot([p[1], p[2]], name="s1")], instance=self.instance)
            sats = [Cost_Sat(self.instance, prof, b if clsname == "SatisfactionProfile" else b.frozen())
                    for b in (prof if variant == 0 else prof[:1])]
            sc = kw.pop("sat_class", None)
            obj = cls(sats, **kw)
            obj.sat_class = sc
            return obj
        els = self.elements(clsname)
        if "Multi" in clsname:
            return cls({els[i]: c for i, c in payload}, **kw)
        return cls([els[i] for i in payload], **kw)

    # ---- observation --------------------------------------------------------------------------------
    def payload_of(self, obj, els):
        def ident(b):
            for i, e in enumerate(els):
                if b is e:
                    return i
            for i, e in enumerate(els):
                if type(b) is type(e) and b == e and getattr(b, "name", None) == getattr(e, "name", None):
                    return i
            return 900 + self.elt_tag(b)
        if isinstance(obj, Counter):
            return sorted([ident(b), int(c)] for b, c in obj.items())
        return [[ident(b), 1] for b in obj]

    def state(self, obj, els):
        n = type(obj).__name__
        if n not in ATTRS or type(obj) is not self.cls.get(n):
            return {"cls": 0, "attrs": [], "payload": [], "pyname": n}
        out = {"cls": TAG[n], "attrs": self.attr_ids(obj), "payload": []}
        if "Profile" in n and "Satisfaction" not in n and els is not None:
            out["payload"] = self.payload_of(obj, els)
        return out


def _roundtrip(obj):
    return pickle.loads(pickle.dumps(obj))


def apply_op(env, cur, other, els, op):
    """returns the Python result of the operation (may raise)"""
    name, arg = op[0], (op[1] if len(op) > 1 else None)
    plain_other = None
    if other is not None:
        base = [b for b in (set, list, Counter, dict, tuple) if isinstance(other, b)][0]
        plain_other = base(other)
    rhs = other if (arg in (None, "obj")) else plain_other
    if name == "copy":
        return cur.copy()
    if name == "ccopy":
        return copy.copy(cur)
    if name == "deepcopy":
        return copy.deepcopy(cur)
    if name == "pickle":
        return _roundtrip(cur)
    if name == "ctor":
        return type(cur)(cur)
    if name in ("add", "sub", "or", "and", "xor"):
        import operator
        return getattr(operator, name + "_" if name in ("or", "and") else name)(cur, rhs)
    if name in ("ror", "rand", "rsub", "rxor", "radd"):
        import operator
        f = {"ror": operator.or_, "rand": operator.and_, "rsub": operator.sub, "rxor": operator.xor,
             "radd": operator.add}[name]
        return f(plain_other, cur)
    if name in ("iadd", "isub", "ior", "iand", "ixor"):
        import operator
        return getattr(operator, name)(cur, rhs)
    if name == "mul":
        return cur * arg
    if name == "rmul":
        return arg * cur
    if name == "imul":
        cur *= arg
        return cur
    if name in ("union", "intersection", "difference", "symmetric_difference"):
        return getattr(cur, name)(rhs)
    if name in ("update", "intersection_update", "difference_update", "symmetric_difference_update"):
        return getattr(cur, name)(rhs)
    if name == "getslice":
        return cur[arg[0]:arg[1]]
    if name == "reversed":
        return reversed(cur)
    if name == "reverse":
        return cur.reverse()
    # ---- mutators of profiles; arguments are element ids ------------------------------------------
    if name == "append":
        return cur.append(els[arg])
    if name == "insert":
        return cur.insert(arg[0], els[arg[1]])
    if name == "extend":
        return cur.extend([els[i] for i in arg])
    if name == "iadd_els":
        cur += [els[i] for i in arg]
        return cur
    if name == "setitem":
        cur[arg[0]] = els[arg[1]]
        return None
    if name == "setslice":
        cur[arg[0]:arg[1]] = [els[i] for i in arg[2]]
        return None
    if name == "mp_setitem":
        cur[els[arg[0]]] = arg[1]
        return None
    if name == "setdefault":
        cur.setdefault(els[arg[0]], arg[1])
        return None
    if name == "update_iter":
        return cur.update([els[i] for i in arg])
    if name == "update_map":
        return cur.update({els[i]: c for i, c in arg})
    if name == "as_multiprofile":
        return cur.as_multiprofile()
    if name == "as_sat":
        from pabutools.election.satisfaction import SatisfactionProfile, SatisfactionMultiProfile, Cost_Sat
        if arg == 0:
            return cur.as_sat_profile(Cost_Sat)
        if arg == 1:
            if isinstance(cur, Counter):
                return SatisfactionMultiProfile(multiprofile=cur, sat_class=Cost_Sat)
            return SatisfactionProfile(profile=cur, sat_class=Cost_Sat)
        return SatisfactionMultiProfile(profile=cur, sat_class=Cost_Sat)
    if name == "mutate":
        return _mutate(env, cur, arg)
    if name == "clear":
        return cur.clear()
    if name == "pop":
        cur.pop()
        return None
    if name == "remove_satisfied":
        return cur.remove_satisfied({"s0": 1, "s1": 1, "": 1}, [env.projects[0]])
    if name == "xctor":
        return env.cls[CLASSES[arg]](cur)
    if name == "from_plain":
        base = [b for b in (set, list, Counter, dict, tuple) if isinstance(cur, b)][0]
        return type(cur)(base(cur))
    if name == "ctor_val":
        return type(cur)(cur, ballot_validation=bool(arg))
    if name == "inst_mut":
        # the linked instance is emptied / refilled IN PLACE: nothing may change for the objects linked to it
        if arg == 0:
            env.instance.clear()
        elif arg == 1:
            env.instance.update(env.projects[:3])
        else:
            env.instance.difference_update(list(env.instance))
        return None
    raise ValueError("unknown op " + str(op))


def _mutate(env, cur, meth):
    """attribute-neutral mutators of the builtin base types (non-profile classes); always return None here"""
    p = env.projects
    n = type(cur).__name__
    if isinstance(cur, set):
        {"add": lambda: cur.add(p[3]), "discard": lambda: cur.discard(p[0]), "update": lambda: cur.update([p[1]])}[meth]()
        return None
    if n in ("SatisfactionProfile", "SatisfactionMultiProfile"):
        from pabutools.election.satisfaction import Cost_Sat
        prof = env.P.ApprovalProfile([env.B.ApprovalBallot([p[3]], name="s0")], instance=env.instance)
        sat = Cost_Sat(env.instance, prof, prof[0] if n == "SatisfactionProfile" else prof[0].frozen())
        if n == "SatisfactionProfile":
            {"append": lambda: cur.append(sat), "extend": lambda: cur.extend([sat]),
             "insert": lambda: cur.insert(0, sat)}[meth]()
        else:
            {"append": lambda: cur.append(sat), "update": lambda: cur.update([sat]),
             "__setitem__": lambda: cur.__setitem__(sat, 2)}[meth]()
        return None
    if n == "BudgetAllocation":
        {"append": lambda: cur.append(p[3]), "extend": lambda: cur.extend([p[2], p[3]]),
         "insert": lambda: cur.insert(0, p[1])}[meth]()
        return None
    if isinstance(cur, dict) and not n.startswith("Frozen"):
        v = None if n == "OrdinalBallot" else 2
        {"__setitem__": lambda: cur.__setitem__(p[3], v), "setdefault": lambda: cur.setdefault(p[2], v),
         "update": lambda: cur.update({p[1]: v}), "pop": lambda: cur.pop(p[0], None),
         "append": lambda: cur.append(p[3])}[meth]()
        return None
    raise TypeError("no mutator %s for %s" % (meth, n))


class _Sentinel:
    pass


def alias_probe(res, cur):
    """[names of attributes that are SHARED between the derived object and its source] and whether the payload is:
    rebinding an attribute of one object must not change the other, and growing one container must not grow the other"""
    shared = []
    if res is cur:
        return shared, False
    names = [a for a in ATTRS.get(type(res).__name__, []) if a in ATTRS.get(type(cur).__name__, [])]
    for a, b in ((res, cur), (cur, res)):
        for n in names:
            if not (hasattr(a, n) and hasattr(b, n)):
                continue
            old_a, old_b = getattr(a, n), getattr(b, n)
            try:
                setattr(a, n, _Sentinel())
            except Exception:
                continue
            if getattr(b, n) is not old_b and n not in shared:
                shared.append(n)
            setattr(a, n, old_a)
            if getattr(b, n) is not old_b:        # shared: restore the other side too
                setattr(b, n, old_b)
    pay = False
    for a, b in ((res, cur), (cur, res)):
        before = len(b)
        tok = _Sentinel()
        try:
            if isinstance(a, set):
                set.add(a, tok)
                pay = pay or len(b) != before
                set.discard(a, tok)
            elif isinstance(a, list):
                list.append(a, tok)
                pay = pay or len(b) != before
                list.pop(a)
            elif isinstance(a, dict):
                dict.__setitem__(a, tok, 1)
                pay = pay or len(b) != before
                dict.__delitem__(a, tok)
        except Exception:
            pass
    return shared, pay


def run_case(case):
    env = Env(case)
    start = case["start"]
    clsname = start["cls"]
    is_prof = "Profile" in clsname and "Satisfaction" not in clsname
    els = env.elements(clsname) if is_prof else None
    cur = env.make(clsname, start["attrs"], start.get("payload"), 0, empty=start.get("empty", False))
    other = env.make(clsname, start["other_attrs"], start.get("other_payload"), 1,
                     empty=start.get("other_empty", False))
    out = {"start": env.state(cur, els), "other": env.state(other, els), "steps": [],
           "elt_tags": [env.elt_tag(b) for b in els] if els else []}
    for op in case["ops"]:
        rec = {}
        try:
            res = apply_op(env, cur, other, els, op)
            if res is None:
                rec["kind"] = "none"
            elif res is cur:
                rec["kind"] = "same"
            else:
                env.allow_copy = op[0] in ("deepcopy", "pickle")
                st = env.state(res, els if type(res).__name__ == clsname else None)
                env.allow_copy = False
                if st["cls"] == 0:
                    rec["kind"] = "plain"
                    rec["pyname"] = st.get("pyname")
                else:
                    rec["kind"] = "new"
                    rec["res"] = st
                    shared, pay = alias_probe(res, cur)
                    if shared or pay:
                        rec["alias"] = {"attrs": shared, "payload": pay}
                    # a new object of the class with the same attributes becomes the current object
                    if type(res).__name__ == clsname and st["attrs"] == env.state(cur, els)["attrs"]:
                        cur = res
                        if op[0] in ("deepcopy", "pickle") and "instance" in ATTRS[clsname] \
                                and st["attrs"][ATTRS[clsname].index("instance")] == 1:
                            env.ref = res.instance
        except Exception as e:  # noqa: the exception class is the observation
            rec["kind"] = "raise"
            rec["exc"] = type(e).__name__
            rec["msg"] = str(e)[:120]
        rec["cur"] = env.state(cur, els)
        out["steps"].append(rec)
    return out
