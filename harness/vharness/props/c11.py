"""C11 -- Pabulib files parse to the election they describe and round-trip losslessly.

Three families of cases:
  rt      a generated election e of one of the four vote types is written by the library and parsed back
          (twice); compared in Coq with e (oracle), with the Gallina model (model), and the written text is
          re-read / re-joined by the character-level model.
  file    a Pabulib FILE rendered by this module's own generator (not by the library's writer) is parsed by
          the library; compared in Coq with the election the generator intended (oracle) and with the model's
          parse (model).  Malformed files: library raises <-> model returns None.
  corpus  a real file of tests/PaBuLib: parse, write, parse again (and once more) and compare; basic
          faithfulness of the first parse against an independent minimal reader (this module, Python side).
"""
from __future__ import annotations

import csv
import io
import os
import random
from fractions import Fraction

from .. import core
from ..core import q, lst, boolc, opt

ID = "C11"
ORACLE = "Oracle.C11"
PROPS = "Props/C11.v"
LEVEL = "proof"
SHARD = 60
CODES = {
    1: ("oracle", "parse(write(e)) is not the election e (projects, exact costs, budget, ballots with content/"
                  "points/voter metadata, project metadata, legal limits)"),
    2: ("model", "parse(write(e)) differs from the Gallina model's parse_rows(write_rows e)"),
    3: ("oracle", "a second write/parse round trip changes the election again"),
    4: ("model", "the model's parse of the text the library wrote differs from the library's parse"),
    5: ("model", "csv_join(csv_split(text)) is not the text the library wrote (character-level writer model)"),
    6: ("oracle", "parse(file) is not the election written in the generated file"),
    7: ("model", "parse(file) differs from the Gallina model's parse of the same text"),
    8: ("model", "well-formed election, but the model's parse_rows(write_rows e) is not literally canon e "
                 "(statement of the round-trip theorem)"),
    9: ("model", "canon e is not well-formed or canon(canon e) differs from canon e (idempotence statement)"),
    20: ("oracle", "corpus file: parse -> write -> parse gives a different election"),
    21: ("oracle", "corpus file: the parsed election disagrees with an independent minimal reader of the file"),
    22: ("oracle", "corpus file: a further write/parse round trip changes the election again"),
    23: ("model", "corpus file: the extracted Gallina parser (parse_file_x, OCaml) disagrees with the library's parse"),
    core.RAISED: ("oracle", "writing or parsing a well-formed election/file raised"),
}
RULE = ("rt: elections with 0..5 projects (ids/metadata from a pool containing ';', '\"', ',', spaces, non-ASCII "
        "letters, empty strings), integer/decimal/fractional costs and budgets, categories/targets, project and "
        "voter metadata columns with holes, the four vote types, list and multi profiles, legal limits at, below "
        "and above the Pabulib defaults, voter ids absent/sorted/unsorted/duplicated, empty ballots, instances "
        "without project_meta entries; low-frequency streams for the recorded findings (',' in a project id or "
        "category, line break in a string, a section keyword as first cell).  file: own renderer with padding blanks, None/none "
        "cells, decimal commas, minimal/forced quoting, doubled quotes, blank lines, \\n and \\r\\n, keyword case; "
        "plus malformed files.  corpus: real files (quick: fixed sample <200 KB; thorough: every non-empty file). "
        "Strings are stripped, never 'none', never a reserved column name; max-type limits are non-zero.  "
        "non-trivial = distinct case with at least one project and one ballot (or a corpus file with votes).")
ASSUMPTIONS = [
    "hand-written Gallina model of pabulib.py (parser state machine, writer derivation) and of CPython's csv "
    "reader/writer for this dialect, tied to the code by differential execution only",
    "text is compared as UTF-8 bytes; str.strip/lower/splitlines are modelled on the ASCII range (generated text "
    "avoids non-ASCII blanks, U+0085/U+2028/U+2029 and letters whose lower() is ASCII)",
    "number text: str(int)/str(mpq) and mpq(text) are modelled by decimal / 'n/d' functions for execution; the "
    "row-level theorems take show_num/read_num as Section variables with a round-trip hypothesis",
    "natsort of the project and vote rows is not modelled: projects are compared as a set, ballots as a multiset "
    "(in order when natsort cannot move them)",
]
TRUSTED = ["Model/PabulibM.v mirrors pabutools/election/pabulib.py and the csv dialect (modelled, not verified)",
           "corpus sweep: Python-side comparison and the independent minimal reader in harness/vharness/props/c11.py"]
EXPLANATION = ("Theorems: csv_split(csv_join rows) = rows for all rows without line-break characters in cells; "
               "row-level round trip and field-by-field faithfulness of the parser model (see Props/C11.v).  Tie: "
               "library parse/write vs generated elections, vs own generated files, vs the model, inside Coq; "
               "real corpus round trip on the Python side.")
MAX_DISCARD = 1.0

# the largest corpus files (3.7 MB, 130 000 votes) need ~30 s alone for parse/write/parse; more under load
os.environ.setdefault("VERIF_CASE_TIMEOUT", "1800")
SEED = int(os.environ.get("VERIF_SEED", "1"))
REPO = os.environ.get("VERIF_REPO", "/repo")
NCORPUS_QUICK = 40


# ----------------------------------------------------------------------------------------------
# corpus file list
# ----------------------------------------------------------------------------------------------
_FILES = None


def corpus_files():
    global _FILES
    if _FILES is None:
        root = os.path.join(REPO, "tests", "PaBuLib")
        out = []
        for d, _, fs in os.walk(root):
            for f in fs:
                if f.endswith(".pb"):
                    p = os.path.join(d, f)
                    sz = os.path.getsize(p)
                    if sz > 16:                      # emptied files are skipped
                        out.append((os.path.relpath(p, root), sz))
        out.sort()
        _FILES = out
    return _FILES


def corpus_selection(tier):
    fs = corpus_files()
    if tier == "quick":
        small = [f for f in fs if f[1] < 200 * 1024]
        rng = random.Random(SEED * 7919 + 11)
        rng.shuffle(small)
        return [f[0] for f in small[:NCORPUS_QUICK]]
    return [f[0] for f in fs]


def budget(tier):
    nc = len(corpus_selection(tier))
    return nc + (1200 if tier == "quick" else 9000)


# ----------------------------------------------------------------------------------------------
# Gallina serialisation
# ----------------------------------------------------------------------------------------------
def gs(s: str) -> str:
    b = s.encode("utf-8")
    if all((32 <= c < 127) or c >= 128 for c in b):
        return '$"' + s.replace('"', '""') + '"'
    if "\n" in s:
        return "(nlj [" + "; ".join(gs(t) for t in s.split("\n")) + "])"
    return "(bs [" + ";".join(str(c) for c in b) + "]%nat)"


def gdict(d) -> str:
    return lst(["(%s, %s)" % (gs(k), gs(v)) for k, v in d])


def gq(x) -> str:
    return q(x)


def goq(x) -> str:
    return "None" if x is None else "(Some %s)" % q(x)


def gon(x) -> str:
    return "None" if x is None else "(Some %d%%nat)" % int(x)


VT = {"approval": "Approval", "scoring": "Scoring", "cumulative": "Cumulative", "ordinal": "Ordinal"}
LIMS = ["min_len", "max_len", "min_cost", "max_cost", "min_total", "max_total", "min_score", "max_score"]


def gelection(E) -> str:
    ps = lst(["(mkProject %s %s %s %s %s)" % (gs(p["name"]), gq(p["cost"]), lst([gs(c) for c in p["cats"]]),
                                             lst([gs(c) for c in p["targets"]]), gdict(p["meta"]))
              for p in E["projects"]])
    bl = lst(["(mkBallot %s %s %s %d%%nat)" % (lst([gs(n) for n in b["projects"]]), lst([gq(x) for x in b["points"]]),
                                         gdict(b["meta"]), b.get("mult", 1)) for b in E["ballots"]])
    L = E["limits"]
    return "(mkElection %s %s %s %s %s %s %s %s %s %s %s %s %s)" % (
        gdict(E["meta"]), ps, gq(E["budget"]), VT[E["vtype"]], bl,
        gon(L.get("min_len")), gon(L.get("max_len")), goq(L.get("min_cost")), goq(L.get("max_cost")),
        goq(L.get("min_total")), goq(L.get("max_total")), goq(L.get("min_score")), goq(L.get("max_score")))


def goelection(E) -> str:
    return "None" if E is None else "(Some %s)" % gelection(E)


def coq_case(case, o):
    k = case["kind"]
    if k == "rt":
        return "(mkCase 0%%nat %s %s %s %s %s)" % (goelection(case["E"]), gs(o["text"]), boolc(o["ordered"]),
                                              goelection(o["out1"]), goelection(o["out2"]))
    if k == "file":
        return "(mkCase 1%%nat %s %s true %s None)" % (goelection(case["E"]), gs(case["text"]), goelection(o["out1"]))
    return "(mkCase 2%nat None [] true None None)"


# ----------------------------------------------------------------------------------------------
# building library objects from an election dict, and reading them back
# ----------------------------------------------------------------------------------------------
def F(x):
    return Fraction(x)


def num(x, as_int=True):
    from pabutools.fractions import frac
    x = F(x)
    if x.denominator == 1 and as_int:
        return int(x.numerator)
    return frac(int(x.numerator), int(x.denominator))


def build(E, opts=None):
    """election dict -> (Instance, Profile) the way a user (or the parser) would construct them"""
    from pabutools.election import (Instance, Project, ApprovalBallot, CardinalBallot, CumulativeBallot,
                                    OrdinalBallot, ApprovalProfile, CardinalProfile, CumulativeProfile,
                                    OrdinalProfile)
    opts = opts or {}
    inst = Instance()
    byname = {}
    for p in E["projects"]:
        pr = Project(p["name"], num(p["cost"], opts.get("int_costs", True)),
                     categories=set(p["cats"]), targets=set(p["targets"]))
        inst.add(pr)
        byname[p["name"]] = pr
        if not (opts.get("no_project_meta") and not p["meta"]):
            pm = dict((k, v) for k, v in p["meta"])
            if opts.get("parsed_like"):
                if p["cats"]:
                    pm["categories"] = set(p["cats"])
                if p["targets"]:
                    pm["targets"] = set(p["targets"])
            inst.project_meta[pr] = pm
    inst.budget_limit = num(E["budget"], opts.get("int_costs", True))
    inst.meta = dict((k, v) for k, v in E["meta"])
    vt = E["vtype"]
    ballots = []
    for b in E["ballots"]:
        meta = dict((k, v) for k, v in b["meta"])
        if vt == "approval":
            bb = ApprovalBallot([byname[n] for n in b["projects"]])
        elif vt == "ordinal":
            bb = OrdinalBallot([byname[n] for n in b["projects"]])
        else:
            bb = (CardinalBallot if vt == "scoring" else CumulativeBallot)(
                {byname[n]: num(x) for n, x in zip(b["projects"], b["points"])})
        bb.meta = meta
        ballots.append(bb)
    L = E["limits"]
    kw = {}
    if L.get("min_len") is not None:
        kw["legal_min_length"] = int(L["min_len"])
    if L.get("max_len") is not None:
        kw["legal_max_length"] = int(L["max_len"])

    def numkw(key, name):
        if L.get(key) is not None:
            kw[name] = num(L[key])
    if vt == "approval":
        numkw("min_cost", "legal_min_cost")
        numkw("max_cost", "legal_max_cost")
        prof = ApprovalProfile(ballots, **kw)
    elif vt == "ordinal":
        prof = OrdinalProfile(ballots, **kw)
    else:
        numkw("min_score", "legal_min_score")
        numkw("max_score", "legal_max_score")
        if vt == "cumulative":
            numkw("min_total", "legal_min_total_score")
            numkw("max_total", "legal_max_total_score")
            prof = CumulativeProfile(ballots, **kw)
        else:
            prof = CardinalProfile(ballots, **kw)
    if opts.get("multi"):
        prof = prof.as_multiprofile()
    return inst, prof


def qj(x):
    return None if x is None else core.qj(x)


def dump(inst, prof, flags=True):
    """(Instance, Profile) -> election dict (exact values; sets sorted).  flags: record as a pseudo metadata entry
    when project_meta[p]["categories"/"targets"] or instance.categories/targets are not the union they should be
    (they legitimately are not in files with duplicated project rows / list columns: the "exotic" stream)"""
    from pabutools.election.profile import (AbstractApprovalProfile, AbstractCumulativeProfile,
                                            AbstractCardinalProfile, AbstractOrdinalProfile)
    if isinstance(prof, AbstractApprovalProfile):
        vt = "approval"
    elif isinstance(prof, AbstractCumulativeProfile):
        vt = "cumulative"
    elif isinstance(prof, AbstractCardinalProfile):
        vt = "scoring"
    elif isinstance(prof, AbstractOrdinalProfile):
        vt = "ordinal"
    else:
        raise TypeError("profile type " + type(prof).__name__)
    projects = []
    allc, allt = set(), set()
    for p in inst:
        pm = inst.project_meta.get(p, {})
        meta = [[str(k), str(v)] for k, v in pm.items() if k not in ("categories", "targets")]
        cats = sorted(str(c) for c in (p.categories or ()))
        tgs = sorted(str(c) for c in (p.targets or ()))
        if flags and "categories" in pm and sorted(pm["categories"]) != cats:
            meta.append(["__categories_mismatch__", repr(pm["categories"])])
        if flags and "targets" in pm and sorted(pm["targets"]) != tgs:
            meta.append(["__targets_mismatch__", repr(pm["targets"])])
        allc.update(cats)
        allt.update(tgs)
        projects.append({"name": str(p.name), "cost": core.qj(p.cost), "cats": cats, "targets": tgs, "meta": meta})
    ballots = []
    for b in prof:
        if vt in ("approval",):
            names, pts = sorted(str(p.name) for p in b), []
        elif vt == "ordinal":
            names, pts = [str(p.name) for p in b], []
        else:
            names = [str(p.name) for p in b]
            pts = [core.qj(b[p]) for p in b]
        ballots.append({"projects": names, "points": pts, "meta": [[str(k), str(v)] for k, v in b.meta.items()],
                        "mult": int(prof.multiplicity(b))})
    L = {"min_len": getattr(prof, "legal_min_length", None), "max_len": getattr(prof, "legal_max_length", None),
         "min_cost": qj(getattr(prof, "legal_min_cost", None)), "max_cost": qj(getattr(prof, "legal_max_cost", None)),
         "min_total": qj(getattr(prof, "legal_min_total_score", None)),
         "max_total": qj(getattr(prof, "legal_max_total_score", None)),
         "min_score": qj(getattr(prof, "legal_min_score", None)),
         "max_score": qj(getattr(prof, "legal_max_score", None))}
    meta = [[str(k), str(v)] for k, v in inst.meta.items()]
    if flags and set(inst.categories or ()) != allc:
        meta.append(["__instance_categories_mismatch__", repr(sorted(inst.categories))])
    if flags and set(inst.targets or ()) != allt:
        meta.append(["__instance_targets_mismatch__", repr(sorted(inst.targets))])
    return {"meta": meta, "projects": projects, "budget": core.qj(inst.budget_limit), "vtype": vt,
            "ballots": ballots, "limits": L}


# ----------------------------------------------------------------------------------------------
# generators
# ----------------------------------------------------------------------------------------------
IDS = ["1", "2", "3", "10", "21", "p1", "p2", "a", "B", "x y", "k;1", 'q"t', '"', ";", "a;b;c", '""x', "Ząb", "é1",
       "7.5", "0", "-", "id 9", "'s'", "m;\"n"]
VALS = ["", "x", "yes", "12", "3,5", "a, b", "k;v", 'say "hi"', '"', ";", ";;", 'a";"b', "Łódź", "über", "1/2", "-3",
        "two words", "it's", "NoneX", "null", "(1;2)", '""']
PKEYS = ["district", "latitude", "selected", "votes", "score", "x;y", 'q"k', "Opis", "name2"]
VKEYS = ["neighborhood", "education", "district", "k;x", 'w"', "zzz", "Wiek"]
MKEYS = ["description", "country", "unit", "subunit", "instance", "rule", "date_begin", "date_end", "language",
         "edition", "district", "comment", "default_score", "scoring_fn", "currency", "k;m", 'q"m', "fully_funded"]
CATS = ["culture", "sport", "green space", "edu;cation", 'pub"lic', "Zdrowie", ""]
COSTS = ["1", "2", "3", "5", "10", "100", "2500", "0", "1/2", "5/2", "7/4", "1/10", "99/100", "1/3", "7/3", "12345/100"]
POINTS = ["0", "1", "2", "3", "5", "10", "1/2", "1/3", "5/2", "7/10"]
FINDING_FLAGS = ["comma_in_list_item", "linebreak", "keyword_cell"]


def pick_subset(rng, pool, pmax):
    k = rng.randrange(0, pmax + 1)
    return rng.sample(pool, min(k, len(pool)))


def gen_election(rng, flag=None):
    vt = rng.choice(["approval", "approval", "scoring", "cumulative", "ordinal"])
    n = rng.choice([1, 2, 2, 3, 3, 4, 5]) if rng.random() > 0.04 else 0
    ids = rng.sample(IDS, n)
    if flag == "comma_in_list_item" and n and rng.random() < 0.6:
        ids[0] = rng.choice(["a,b", "1,2", "x, y"])
    if flag == "keyword_cell" and n:
        ids[0] = rng.choice(["votes", "META", "Projects", "meta"])
    with_cats = rng.random() < 0.35
    with_tg = rng.random() < 0.2
    pkeys = pick_subset(rng, PKEYS, 3)
    has_name = rng.random() < 0.5
    projects = []
    for i in range(n):
        meta = []
        ks = [k for k in pkeys if rng.random() < 0.7]
        rng.shuffle(ks)
        if has_name and rng.random() < 0.85:
            ks.insert(rng.randrange(0, len(ks) + 1), "name")
        for k in ks:
            meta.append([k, rng.choice(VALS)])
        cats = sorted(set(pick_subset(rng, CATS, 3))) if with_cats else []
        tgs = sorted(set(pick_subset(rng, CATS, 2))) if with_tg else []
        projects.append({"name": ids[i], "cost": core.qj(F(rng.choice(COSTS))), "cats": cats, "targets": tgs,
                         "meta": meta})
    if flag == "comma_in_list_item" and n and ("," not in ids[0]):
        projects[0]["cats"] = ["a,b"]
    tot = sum((F(p["cost"]) for p in projects), Fraction(0))
    bud = rng.choice([tot, tot / 2, tot + 1, F(rng.choice(COSTS)) + 1, Fraction(7, 2), Fraction(1000)])
    if bud <= 0:
        bud = Fraction(1)
    # ballots
    nb = rng.choice([0, 1, 2, 3, 3, 4, 5, 6]) if n else 0
    vkeys = pick_subset(rng, VKEYS, 2)
    std = [k for k in ("age", "sex", "voting_method") if rng.random() < 0.4]
    idmode = rng.choice(["absent", "absent", "sorted", "sorted", "unsorted", "dup", "mixed"])
    ballots = []
    for j in range(nb):
        k = rng.randrange(1, n + 1) if rng.random() > 0.12 else 0
        names = rng.sample(ids, k)
        pts = []
        if vt in ("scoring", "cumulative"):
            pts = [core.qj(F(rng.choice(POINTS))) for _ in names]
        if vt == "approval":
            names = sorted(names)
        meta = []
        if idmode == "sorted":
            meta.append(["voter_id", str(3 + 4 * j)])
        elif idmode == "unsorted":
            meta.append(["voter_id", rng.choice(["7", "12", "100", "v3", "a", "10b", "2"]) + str(rng.randrange(50))])
        elif idmode == "dup":
            meta.append(["voter_id", rng.choice(["1", "2"])])
        elif idmode == "mixed" and rng.random() < 0.5:
            meta.append(["voter_id", rng.choice(["0", "5", "x1", "44"])])
        ks = [k2 for k2 in std + vkeys if rng.random() < 0.7]
        rng.shuffle(ks)
        for k2 in ks:
            meta.append([k2, rng.choice(VALS)])
        rng.shuffle(meta)
        ballots.append({"projects": names, "points": pts, "meta": meta, "mult": 1})
    # limits
    L = {}
    if rng.random() < 0.45:
        L["min_len"] = rng.choice([0, 1, 1, 2, 3])
    if rng.random() < 0.45:
        L["max_len"] = rng.choice([1, 2, max(n - 1, 1), max(n, 1), n + 1, n + 3])
    if vt == "approval":
        if rng.random() < 0.4:
            L["min_cost"] = core.qj(rng.choice([Fraction(0), Fraction(1), Fraction(1, 2), bud / 4]))
        if rng.random() < 0.5:
            L["max_cost"] = core.qj(rng.choice([bud / 2, bud, bud + 1, bud - Fraction(1, 100), Fraction(1, 3)]))
    if vt in ("scoring", "cumulative"):
        if rng.random() < 0.4:
            L["min_score"] = core.qj(rng.choice([Fraction(0), Fraction(1), Fraction(1, 2)]))
        if rng.random() < 0.5:
            L["max_score"] = core.qj(rng.choice([Fraction(5), Fraction(10), Fraction(7, 2)]))
    if vt == "cumulative":
        if rng.random() < 0.4:
            L["min_total"] = core.qj(rng.choice([Fraction(0), Fraction(1), Fraction(3, 2)]))
        if rng.random() < 0.6:
            L["max_total"] = core.qj(rng.choice([Fraction(10), Fraction(5), Fraction(21, 2)]))
    for k in LIMS:
        L.setdefault(k, None)
    # instance metadata
    meta = []
    for k in pick_subset(rng, MKEYS, 6):
        meta.append([k, rng.choice([v for v in VALS if v != ""] + ["PB 2020", "greedy", "Poland"])])
    E = {"meta": meta, "projects": projects, "budget": core.qj(bud), "vtype": vt, "ballots": ballots, "limits": L}
    if flag == "linebreak":
        ch = rng.choice(["\n", "\r", "\x0b", "\x0c", "\x1c", "\r\n"])
        where = rng.randrange(3)
        if where == 0 or not projects:
            E["meta"].append(["note", "line1" + ch + "line2"])
        elif where == 1:
            projects[0]["meta"].append(["name" if not any(k == "name" for k, _ in projects[0]["meta"]) else "info",
                                        "a" + ch + "b"])
        elif ballots:
            ballots[0]["meta"].append(["remark", "u" + ch + "v"])
        else:
            E["meta"].append(["note", "line1" + ch + "line2"])
    if flag == "keyword_cell" and not n:
        E["meta"].append(["Votes", "x"])
    return E


def gen_rt(rng, i, tier="quick"):
    flag = None
    r = rng.random()
    # the driver examines the first 40 oracle failures only: keep the recorded-finding streams below that
    if r < (0.025 if tier == "quick" else 0.003):
        flag = FINDING_FLAGS[rng.randrange(len(FINDING_FLAGS))]
    E = gen_election(rng, flag)
    opts = {"int_costs": rng.random() < 0.7, "parsed_like": rng.random() < 0.4, "multi": False}
    if rng.random() < 0.12:
        # user-built instance: no project_meta entry for projects without metadata
        opts["no_project_meta"] = True
        opts["parsed_like"] = False
        for p in E["projects"]:
            if rng.random() < 0.6:
                p["meta"] = []
    if opts["parsed_like"]:
        # what the parser would have left in the dictionaries (possibly stale text)
        for p in E["projects"]:
            p["meta"] = [["project_id", p["name"]], ["cost", rng.choice([str(F(p["cost"])), "0", "12,50"])]] + p["meta"]
        nb = len(E["ballots"])
        E["meta"] += [["num_projects", str(rng.choice([len(E["projects"]), 99]))], ["num_votes", str(nb)],
                      ["budget", rng.choice(["1", "10,5", str(F(E["budget"]))])], ["vote_type", rng.choice(
                          ["approval", "ordinal", E["vtype"]])]]
        L = E["limits"]
        if L["min_len"] is None and rng.random() < 0.5:
            E["meta"].append(["min_length", "1"])
        if L["max_len"] is None and rng.random() < 0.5:
            E["meta"].append(["max_length", str(len(E["projects"]) + rng.randrange(3))])
        if E["vtype"] == "approval" and L["max_cost"] is None and rng.random() < 0.5:
            E["meta"].append(["max_sum_cost", str(F(E["budget"]) + rng.randrange(2))])
        if L["min_len"] is not None and L["min_len"] > 0 and rng.random() < 0.5:
            E["meta"].append(["min_length", "77"])          # overwritten by the writer
        rng.shuffle(E["meta"])
    if E["vtype"] != "cumulative" or True:
        opts["multi"] = rng.random() < 0.2
    return {"kind": "rt", "E": E, "opts": opts, "flag": flag}


def num_text(rng, x, decimal_comma_ok):
    """a text the file may use for the rational x"""
    x = F(x)
    forms = []
    if x.denominator == 1:
        forms += [str(x.numerator), str(x.numerator) + ".0", str(x.numerator) + ".00", "0" + str(x.numerator)]
    else:
        forms.append("%d/%d" % (x.numerator, x.denominator))
    # exact decimals
    d = x.denominator
    while d % 2 == 0:
        d //= 2
    while d % 5 == 0:
        d //= 5
    if d == 1 and x >= 0:
        for places in (1, 2, 3, 4):
            if (x * 10 ** places).denominator == 1:
                v = x * 10 ** places
                s = str(v.numerator).rjust(places + 1, "0")
                forms.append(s[:-places] + "." + s[-places:])
                break
    t = rng.choice(forms)
    if decimal_comma_ok and "." in t and rng.random() < 0.5:
        t = t.replace(".", ",")
    return t


def spec_limits(meta, vt, nproj, budget):
    """the header limits as the Pabulib format defines them (defaults mean: no limit)"""
    L = {k: None for k in LIMS}

    def fr(k):
        return None if k not in meta else F(meta[k])
    if "min_length" in meta and int(meta["min_length"]) != 1:
        L["min_len"] = int(meta["min_length"])
    if "max_length" in meta and int(meta["max_length"]) < nproj:
        L["max_len"] = int(meta["max_length"])
    if vt == "approval":
        if fr("min_sum_cost") not in (None, 0):
            L["min_cost"] = core.qj(fr("min_sum_cost"))
        if fr("max_sum_cost") is not None and fr("max_sum_cost") < budget:
            L["max_cost"] = core.qj(fr("max_sum_cost"))
    if vt in ("scoring", "cumulative"):
        if fr("min_points") not in (None, 0):
            L["min_score"] = core.qj(fr("min_points"))
        if fr("max_points") is not None and not (fr("max_sum_points") is not None and fr("max_points") == fr("max_sum_points")):
            L["max_score"] = core.qj(fr("max_points"))
    if vt == "cumulative":
        if fr("min_sum_points") not in (None, 0):
            L["min_total"] = core.qj(fr("min_sum_points"))
        if fr("max_sum_points") is not None:
            L["max_total"] = core.qj(fr("max_sum_points"))
    return L


def render(rng, rows_spec):
    """rows_spec: list of ('row', [cells]) | ('blank', text); own CSV renderer with style choices"""
    eol = rng.choice(["\n", "\n", "\r\n"])
    forced = rng.random() < 0.3
    out = []
    for kind, cells in rows_spec:
        if kind == "blank":
            out.append(cells)
            continue
        txt = []
        for c in cells:
            need = (";" in c) or ('"' in c)
            if need or (forced and rng.random() < 0.4) or (len(cells) == 1 and c == ""):
                txt.append('"' + c.replace('"', '""') + '"')
            else:
                txt.append(c)
        out.append(";".join(txt))
    s = eol.join(out)
    if rng.random() < 0.8:
        s += eol
    return s


def pad(rng, c):
    r = rng.random()
    if r < 0.75:
        return c
    if r < 0.85:
        return " " + c
    if r < 0.95:
        return c + " "
    return "  " + c + "\t"


def none_cell(rng):
    return rng.choice(["None", "None", "none", "NONE", " None "])


def gen_file(rng, i):
    E0 = gen_election(rng, None)
    vt = E0["vtype"]
    bad = None
    if rng.random() < 0.18:
        bad = rng.choice(["no_budget", "no_vote_type", "unknown_project", "long_project_row", "no_cost",
                          "few_points", "keyword_last", "bad_vote_type", "bad_cost", "bad_limit", "meta_one_cell",
                          "no_vote_col"])
    nproj = len(E0["projects"])
    budget = F(E0["budget"])
    rows = []
    blank = lambda: rows.append(("blank", rng.choice(["", "", "   ", "\t"]))) if rng.random() < 0.12 else None
    kw = lambda w: rng.choice([w, w, w.lower(), w.capitalize(), " " + w + " "])
    # ---- META
    meta = {}
    mrows = [[k, v] for k, v in E0["meta"]]
    btxt = num_text(rng, budget, True)
    mrows.append(["budget", btxt])
    mrows.append(["vote_type", vt])
    if rng.random() < 0.5:
        mrows.append(["num_projects", str(nproj)])
    L0 = E0["limits"]
    limtxt = {"min_len": "min_length", "max_len": "max_length", "min_cost": "min_sum_cost", "max_cost": "max_sum_cost",
              "min_total": "min_sum_points", "max_total": "max_sum_points", "min_score": "min_points",
              "max_score": "max_points"}
    for k, name in limtxt.items():
        v = L0.get(k)
        if v is None:
            # limits irrelevant for this vote type are still parsed by the library
            if rng.random() < 0.08:
                v = rng.choice(["1", "0", "3", "5/2"]) if k not in ("min_len", "max_len") else rng.choice([0, 1, 2, 9])
            else:
                continue
        mrows.append([name, str(v) if k in ("min_len", "max_len") else num_text(rng, v, False)])
    rng.shuffle(mrows)
    if bad == "no_budget":
        mrows = [r for r in mrows if r[0] != "budget"]
    if bad == "no_vote_type":
        mrows = [r for r in mrows if r[0] != "vote_type"]
    if bad == "bad_vote_type":
        mrows = [r if r[0] != "vote_type" else ["vote_type", "choose-1"] for r in mrows]
    if bad == "bad_limit":
        mrows.append(["max_length", rng.choice(["x", "2.5", ""])])
    rows.append(("row", [kw("META")]))
    rows.append(("row", rng.choice([["key", "value"], ["key", "value", "extra"], ["k"]])))
    for k, v in mrows:
        blank()
        cells = [pad(rng, k), pad(rng, v)]
        if rng.random() < 0.05:
            cells.append("ignored")
        rows.append(("row", cells))
        meta[k.strip()] = v.strip()
    if bad == "meta_one_cell":
        rows.append(("row", ["lonely"]))
    # ---- PROJECTS
    idcol = rng.choice(["project_id", "project_id", "id", "Project ID"])
    catcol = rng.choice(["category", "categories"])
    tgcol = rng.choice(["target", "targets"])
    extra = []
    for p in E0["projects"]:
        for k, _ in p["meta"]:
            if k not in extra:
                extra.append(k)
    cols = ["cost"] + extra
    if any(p["cats"] for p in E0["projects"]) or rng.random() < 0.1:
        cols.append(catcol)
    if any(p["targets"] for p in E0["projects"]) or rng.random() < 0.1:
        cols.append(tgcol)
    rng.shuffle(cols)
    cols = [idcol] + cols
    if bad == "no_cost":
        cols = [c if c != "cost" else "price" for c in cols]
    rows.append(("row", [kw("PROJECTS")]))
    rows.append(("row", [pad(rng, c) for c in cols]))
    pheader_idx, prow_idx, vrow_idx = len(rows) - 1, [], []
    projects = []
    for p in E0["projects"]:
        blank()
        pm = dict((k, v) for k, v in p["meta"])
        cells, imeta = [], []
        cats, tgs = [], []
        for c in cols:
            if c == idcol:
                cell = p["name"]
                imeta.append([c, cell])
            elif c in ("cost", "price"):
                cell = num_text(rng, p["cost"], True) if bad != "bad_cost" else "abc"
                imeta.append([c, cell])
            elif c == catcol:
                if p["cats"]:
                    cell = rng.choice([",", ", ", " ,"]).join(p["cats"])
                    cats = sorted(set(x.strip() for x in p["cats"]))
                else:
                    cell = none_cell(rng)
            elif c == tgcol:
                if p["targets"]:
                    cell = ",".join(p["targets"])
                    tgs = sorted(set(x.strip() for x in p["targets"]))
                else:
                    cell = none_cell(rng)
            elif c in pm:
                cell = pm[c]
                imeta.append([c, cell])
            else:
                cell = none_cell(rng)
            cells.append(pad(rng, cell))
        # trailing cells may be missing when they are None anyway
        while len(cells) > 2 and cells[-1].strip().lower() == "none" and rng.random() < 0.3:
            cells.pop()
        if bad == "long_project_row":
            cells = cells + ["x"] * (len(cols) - len(cells) + 1)
        rows.append(("row", cells))
        prow_idx.append(len(rows) - 1)
        projects.append({"name": p["name"], "cost": p["cost"], "cats": cats, "targets": tgs, "meta": imeta})
    # ---- VOTES
    vextra = []
    for b in E0["ballots"]:
        for k, _ in b["meta"]:
            if k not in vextra:
                vextra.append(k)
    vcols = list(vextra) + ["vote"] + (["points"] if vt in ("scoring", "cumulative") or rng.random() < 0.05 else [])
    if bad == "no_vote_col":
        vcols = [c if c != "vote" else "votes" for c in vcols]
    rng.shuffle(vcols)
    rows.append(("row", [kw("VOTES")]))
    if bad == "keyword_last":
        text = render(rng, rows)
        return {"kind": "file", "E": None, "text": text, "bad": bad}
    rows.append(("row", [pad(rng, c) for c in vcols]))
    ballots = []
    for bi, b in enumerate(E0["ballots"]):
        blank()
        bm = dict((k, v) for k, v in b["meta"])
        names = list(b["projects"])
        if bad == "unknown_project" and bi == 0:
            names = names + ["nosuchproject"]
        cells, imeta = [], []
        for c in vcols:
            if c in ("vote", "votes"):
                cell = ",".join(names)
            elif c == "points":
                if vt in ("scoring", "cumulative"):
                    pts = list(b["points"])
                    if bad == "few_points" and bi == 0:
                        pts = pts[:-1]
                    elif rng.random() < 0.1:
                        pts = pts + ["9"]                     # surplus points are ignored
                    cell = rng.choice([",", ", "]).join(num_text(rng, x, False) for x in pts)
                    if not pts:
                        cell = ""
                else:
                    cell = "7"
                    imeta.append([c, cell])
            elif c in bm:
                cell = bm[c]
                imeta.append([c, cell])
            else:
                cell = none_cell(rng)
            cells.append(pad(rng, cell))
        if rng.random() < 0.1:
            cells.append(none_cell(rng))                      # a surplus None cell is skipped by the parser
        rows.append(("row", cells))
        vrow_idx.append(len(rows) - 1)
        if len(cells) == 1 and not cells[0].strip():
            continue                                          # one blank cell = a blank line, not a vote
        ballots.append({"projects": sorted(names) if vt == "approval" else names, "points": list(b["points"]),
                        "meta": imeta, "mult": 1})
    if bad is None and rng.random() < 0.14:
        bad = exotic(rng, rows, pheader_idx, prow_idx, vrow_idx, vcols, vt)
    text = render(rng, rows)
    if bad is not None and bad.startswith("exotic"):
        return {"kind": "file", "E": None, "text": text, "bad": bad}
    if bad is not None:
        if bad in ("unknown_project", "few_points", "no_vote_col") and not E0["ballots"]:
            bad = None
        elif bad in ("long_project_row", "no_cost", "bad_cost") and not nproj:
            bad = None
        elif bad == "bad_vote_type" and not E0["ballots"]:
            bad = "bad_vote_type"      # profile is None: treated as a failure on both sides
    if bad is not None:
        return {"kind": "file", "E": None, "text": text, "bad": bad}
    E = {"meta": [[k, v] for k, v in meta.items()], "projects": projects, "budget": core.qj(budget), "vtype": vt,
         "ballots": ballots, "limits": spec_limits(meta, vt, nproj, budget)}
    return {"kind": "file", "E": E, "text": text, "bad": None}


def exotic(rng, rows, pheader_idx, prow_idx, vrow_idx, vcols, vt):
    """legal-but-odd files: no intended election is stated, only library vs model is compared"""
    kind = rng.choice(["dup_project_row", "dup_column", "repeat_vote", "junk_before_meta", "second_meta",
                       "open_quote", "dup_vote_column"])
    if kind == "dup_project_row" and prow_idx:
        j = rng.choice(prow_idx)
        cells = list(rows[j][1])
        for t in range(1, len(cells)):
            if rng.random() < 0.5:
                cells[t] = rng.choice(["1", "2.5", "None", "zz", cells[t]])
        rows.insert(rng.choice([j + 1, prow_idx[-1] + 1]), ("row", cells))
    elif kind == "dup_column":
        hdr = list(rows[pheader_idx][1])
        hdr.append(rng.choice(hdr[1:] + ["cost", "category"]))
        rows[pheader_idx] = ("row", hdr)
        for j in prow_idx:
            cells = list(rows[j][1])
            cells += ["None"] * (len(hdr) - 1 - len(cells))
            cells.append(rng.choice(["7", "None", "a,b", "1,5"]))
            rows[j] = ("row", cells)
    elif kind == "repeat_vote" and vrow_idx and "vote" in vcols:
        j = rng.choice(vrow_idx)
        cells = list(rows[j][1])
        vi = vcols.index("vote")
        if vi < len(cells) and cells[vi].strip():
            first = cells[vi].strip().split(",")[0]
            cells[vi] = cells[vi].strip() + "," + first
            if "points" in vcols and vcols.index("points") < len(cells):
                pi = vcols.index("points")
                cells[pi] = cells[pi].strip() + ",4"
            rows[j] = ("row", cells)
    elif kind == "junk_before_meta":
        rows.insert(0, ("row", ["junk", "1"]))
        rows.insert(0, ("row", ["budget", "999"]))
    elif kind == "second_meta":
        rows += [("row", ["META"]), ("row", ["key", "value"]), ("row", ["comment", "late"]),
                 ("row", ["max_length", "1"])]
    elif kind == "open_quote":
        j = rng.randrange(2, len(rows))
        rows.insert(j, ("blank", rng.choice(['note;"open', 'x"y;"z"w;"', '"a"b;c'])))
    elif kind == "dup_vote_column" and vrow_idx:
        hj = vrow_idx[0] - 1
        while rows[hj][0] != "row":
            hj -= 1
        hdr = list(rows[hj][1])
        hdr.append(rng.choice(hdr))
        rows[hj] = ("row", hdr)
        for j in vrow_idx:
            cells = list(rows[j][1])
            cells += ["None"] * (len(hdr) - 1 - len(cells))
            cells.append(rng.choice(["7", "None", cells[0]]))
            rows[j] = ("row", cells)
    return "exotic:" + kind


# ----------------------------------------------------------------------------------------------
# thorough tier: the parser model extracted to OCaml (never committed; built into /verif/gen)
# ----------------------------------------------------------------------------------------------
XPARSER_MAX_BYTES = 64 * 1024 * 1024   # every corpus file (largest: 3.7 MB, ~110 s alone)
XPARSER_TIMEOUT = 1500
# the extracted code recurses as deep as the file is long (split_lines): every minor collection scans that stack,
# so a large minor heap (4M words) is what keeps the run time linear
XPARSER_ENV = {"OCAMLRUNPARAM": "s=4M"}
EXTRACT_V = """From PB Require Import Model.PabulibM.
Require Import ExtrOcamlBasic ExtrOcamlString.
Extraction Blacklist String List.
Extraction "pabulib_model.ml" parse_file_x show_q_dec show_nat_dec.
"""
DRIVER_ML = r"""(* reads a .pb file, prints the election parsed by the extracted Gallina parser; strings as hex *)
open Pabulib_model
let read_file path =
  let ic = open_in_bin path in
  let n = in_channel_length ic in
  let s = really_input_string ic n in
  close_in ic;
  if n >= 3 && String.sub s 0 3 = "\xEF\xBB\xBF" then String.sub s 3 (n - 3) else s
let explode s = let rec go i acc = if i < 0 then acc else go (i - 1) (s.[i] :: acc) in go (String.length s - 1) []
let implode l = let b = Buffer.create 16 in List.iter (Buffer.add_char b) l; Buffer.contents b
let hex l = let b = Buffer.create 32 in
  List.iter (fun c -> Buffer.add_string b (Printf.sprintf "%02x" (Char.code c))) l;
  if Buffer.length b = 0 then "-" else Buffer.contents b
let qs x = implode (show_q_dec x)
let oq = function None -> "-" | Some x -> qs x
let on = function None -> "-" | Some n -> implode (show_nat_dec n)
let dict d = String.concat "," (List.map (fun (k, v) -> hex k ^ "=" ^ hex v) d)
let strs l = String.concat "," (List.map hex l)
let () =
  let text = read_file Sys.argv.(1) in
  match parse_file_x (explode text) with
  | None -> print_string "NONE\n"
  | Some e ->
    let vt = match e.e_vtype with Approval -> "approval" | Scoring -> "scoring"
                                | Cumulative -> "cumulative" | Ordinal -> "ordinal" in
    Printf.printf "vtype %s\nbudget %s\n" vt (qs e.e_budget);
    Printf.printf "limits %s %s %s %s %s %s %s %s\n" (on e.e_min_len) (on e.e_max_len) (oq e.e_min_cost)
      (oq e.e_max_cost) (oq e.e_min_total) (oq e.e_max_total) (oq e.e_min_score) (oq e.e_max_score);
    Printf.printf "meta {%s}\n" (dict e.e_meta);
    List.iter (fun p -> Printf.printf "project %s %s [%s] [%s] {%s}\n" (hex p.p_name) (qs p.p_cost)
                 (strs p.p_cats) (strs p.p_targets) (dict p.p_meta)) e.e_projects;
    List.iter (fun b -> Printf.printf "ballot [%s] [%s] {%s}\n" (strs b.b_projects)
                 (String.concat "," (List.map qs b.b_points)) (dict b.b_meta)) e.e_ballots
"""
_XBIN = "unset"


def build_xparser():
    """coqc (Extraction) + ocamlfind ocamlopt into /verif/gen/C11_xparser_<pid>; None when unavailable"""
    global _XBIN
    if _XBIN != "unset":
        return _XBIN
    import atexit
    import shutil
    import subprocess
    d = os.path.join(core.VERIF, "gen", "C11_xparser_%d" % os.getpid())
    _XBIN = None
    try:
        shutil.rmtree(d, ignore_errors=True)
        os.makedirs(d)
        atexit.register(lambda: shutil.rmtree(d, ignore_errors=True))
        open(os.path.join(d, "extract.v"), "w").write(EXTRACT_V)
        open(os.path.join(d, "driver.ml"), "w").write(DRIVER_ML.replace("\\", "\\"))
        r = subprocess.run(["timeout", "600", "coqc", "-q", "-Q", os.path.join(core.COQ, "theories"), "PB", "extract.v"],
                           cwd=d, capture_output=True, text=True)
        if r.returncode != 0 or not os.path.exists(os.path.join(d, "pabulib_model.ml")):
            raise RuntimeError("extraction failed: " + (r.stdout + r.stderr)[-400:])
        r = subprocess.run(["timeout", "600", "ocamlfind", "ocamlopt", "-O3", "-w", "-a", "pabulib_model.mli",
                            "pabulib_model.ml", "driver.ml", "-o", "pbparse"], cwd=d, capture_output=True, text=True)
        if r.returncode != 0 or not os.path.exists(os.path.join(d, "pbparse")):
            raise RuntimeError("ocamlopt failed: " + (r.stdout + r.stderr)[-400:])
        _XBIN = os.path.join(d, "pbparse")
    except Exception as ex:     # noqa: the extracted parser is an additional tie, not a prerequisite
        sys_msg = repr(ex)[:300]
        _XBIN = None
        build_xparser.error = sys_msg
    return _XBIN


build_xparser.error = None


def unhex(t):
    return "" if t == "-" else bytes.fromhex(t).decode("utf-8")


def undict(t):
    t = t.strip()
    assert t.startswith("{") and t.endswith("}"), t[:40]
    t = t[1:-1]
    return [] if not t else [[unhex(kv.split("=")[0]), unhex(kv.split("=")[1])] for kv in t.split(",")]


def unlist(t):
    assert t.startswith("[") and t.endswith("]"), t[:40]
    t = t[1:-1]
    return [] if not t else t.split(",")


def read_xdump(out):
    """the driver's output -> election dict (None when the model's parser fails)"""
    lines = out.split("\n")
    if lines[0].strip() == "NONE":
        return None
    E = {"projects": [], "ballots": []}
    for ln in lines:
        if not ln:
            continue
        w = ln.split(" ")
        if w[0] == "vtype":
            E["vtype"] = w[1]
        elif w[0] == "budget":
            E["budget"] = core.qj(F(w[1]))
        elif w[0] == "limits":
            vals = w[1:9]
            E["limits"] = {k: (None if v == "-" else (int(v) if k in ("min_len", "max_len") else core.qj(F(v))))
                           for k, v in zip(LIMS, vals)}
        elif w[0] == "meta":
            E["meta"] = undict(w[1])
        elif w[0] == "project":
            E["projects"].append({"name": unhex(w[1]), "cost": core.qj(F(w[2])),
                                  "cats": sorted(unhex(x) for x in unlist(w[3])),
                                  "targets": sorted(unhex(x) for x in unlist(w[4])), "meta": undict(w[5])})
        elif w[0] == "ballot":
            names = [unhex(x) for x in unlist(w[1])]
            E["ballots"].append({"projects": names, "points": [core.qj(F(x)) for x in unlist(w[2])],
                                 "meta": undict(w[3]), "mult": 1})
    if E.get("vtype") == "approval":
        for b in E["ballots"]:
            b["projects"] = sorted(b["projects"])
    return E


def run_xparser(xbin, path):
    import subprocess
    try:
        r = subprocess.run(["bash", "-c", 'ulimit -s unlimited 2>/dev/null || ulimit -s 1000000; exec "$0" "$1"', xbin, path],
                           capture_output=True, timeout=XPARSER_TIMEOUT, env=dict(os.environ, **XPARSER_ENV))
    except subprocess.TimeoutExpired:
        return "timeout", None
    if r.returncode != 0:
        return "crash rc=%s %s" % (r.returncode, r.stderr.decode("utf8", "replace")[-200:]), None
    return "ok", read_xdump(r.stdout.decode("utf-8"))


def gen(rng, i, tier):
    sel = corpus_selection(tier)
    if i < len(sel):
        c = {"kind": "corpus", "path": sel[i]}
        if tier == "thorough" and not os.environ.get("VERIF_C11_NO_EXTRACT"):
            c["xbin"] = build_xparser()
            c["xerr"] = build_xparser.error
        return c
    j = i - len(sel)
    if j % 5 in (0, 1, 2):
        return gen_rt(rng, j, tier)
    return gen_file(rng, j)


# ----------------------------------------------------------------------------------------------
# running the implementation
# ----------------------------------------------------------------------------------------------
def natsort_keeps_order(E):
    """True when natsorted(votes, key=voter_id) cannot move a vote (ids defaulting to the ballot index)"""
    from natsort import natsorted
    ids = []
    for idx, b in enumerate(E["ballots"]):
        m = dict((k, v) for k, v in b["meta"])
        vid = m["voter_id"] if "voter_id" in m else idx
        ids += [vid] * int(b.get("mult", 1))
    try:
        order = natsorted(range(len(ids)), key=lambda t: ids[t])
    except Exception:
        return False
    return order == list(range(len(ids)))


def impl(case):
    from pabutools.election.pabulib import parse_pabulib_from_string, election_as_pabulib_string
    k = case["kind"]
    if k == "rt":
        inst, prof = build(case["E"], case["opts"])
        E = case["E"]
        if case["opts"].get("multi"):
            E = dict(E)
            E["ballots"] = dump(inst, prof)["ballots"]
        text = election_as_pabulib_string(inst, prof)
        i1, p1 = parse_pabulib_from_string(text)
        out1 = dump(i1, p1)
        text2 = election_as_pabulib_string(i1, p1)
        i2, p2 = parse_pabulib_from_string(text2)
        out2 = dump(i2, p2)
        return {"text": text, "out1": out1, "out2": out2, "ordered": natsort_keeps_order(E), "E": E}
    if k == "file":
        try:
            i1, p1 = parse_pabulib_from_string(case["text"])
            if p1 is None:
                raise ValueError("no profile")
            out1 = dump(i1, p1, flags=not str(case.get("bad") or "").startswith("exotic"))
        except Exception as e:      # noqa
            if case["E"] is not None:
                raise
            return {"out1": None, "raised": type(e).__name__}
        return {"out1": out1}
    return corpus_check(os.path.join(os.environ.get("VERIF_REPO", REPO), "tests", "PaBuLib", case["path"]),
                        case.get("xbin"))


def post(cases, obs):
    cases, obs = core.default_post(cases, obs)
    for c, o in zip(cases, obs):
        if not isinstance(o, dict) or "py_fail" in o:
            continue
        if c["kind"] == "rt" and "E" in o:
            c["E"] = o["E"]              # multiprofile: the ballots as the library grouped them
        if c["kind"] == "corpus" and o.get("code"):
            o["py_fail"] = o["code"]
    return cases, obs


# ----------------------------------------------------------------------------------------------
# corpus sweep (Python side)
# ----------------------------------------------------------------------------------------------
DERIVED_META = {"description", "country", "unit", "instance", "rule", "num_projects", "num_votes", "budget",
                "vote_type", "min_length", "max_length", "min_sum_cost", "max_sum_cost", "min_points", "max_points",
                "min_sum_points", "max_sum_points"}


def _same_modulo(d, d2, derived):
    d, d2 = dict(map(tuple, d)), dict(map(tuple, d2))
    for k, v in d.items():
        if k not in derived and d2.get(k) != v:
            return "key %r: %r -> %r" % (k, v, d2.get(k))
    for k, v in d2.items():
        if k not in derived and d.get(k) != v:
            return "key %r appears: %r" % (k, v)
    return None


def _ballot_key(vt, b, with_id=True):
    if vt in ("scoring", "cumulative"):
        content = tuple(sorted(zip(b["projects"], b["points"])))
    elif vt == "approval":
        content = tuple(sorted(b["projects"]))
    else:
        content = tuple(b["projects"])
    meta = tuple(sorted((k, v) for k, v in b["meta"] if with_id or k != "voter_id"))
    return (content, meta)


def compare_elections(A, B, full):
    """None when B is 'the same election' as A (full: every dictionary entry must agree too)"""
    from collections import Counter
    if A["vtype"] != B["vtype"]:
        return "vote type %s -> %s" % (A["vtype"], B["vtype"])
    if F(A["budget"]) != F(B["budget"]):
        return "budget %s -> %s" % (A["budget"], B["budget"])
    if A["limits"] != B["limits"]:
        return "limits %r -> %r" % (A["limits"], B["limits"])
    r = _same_modulo(A["meta"], B["meta"], set() if full else DERIVED_META)
    if r:
        return "instance meta " + r
    pa = {p["name"]: p for p in A["projects"]}
    pb_ = {p["name"]: p for p in B["projects"]}
    if len(pa) != len(A["projects"]) or len(pb_) != len(B["projects"]) or set(pa) != set(pb_):
        return "project names differ: %r" % sorted(set(pa) ^ set(pb_))[:5]
    for n, p in pa.items():
        p2 = pb_[n]
        if F(p["cost"]) != F(p2["cost"]):
            return "cost of %r: %s -> %s" % (n, p["cost"], p2["cost"])
        if p["cats"] != p2["cats"] or p["targets"] != p2["targets"]:
            return "categories/targets of %r" % n
        r = _same_modulo(p["meta"], p2["meta"], set() if full else {"project_id", "cost"})
        if r:
            return "project meta of %r: %s" % (n, r)
    if len(A["ballots"]) != len(B["ballots"]):
        return "number of ballots %d -> %d" % (len(A["ballots"]), len(B["ballots"]))
    vt = A["vtype"]
    ca = Counter(_ballot_key(vt, b) for b in A["ballots"])
    cb = Counter(_ballot_key(vt, b) for b in B["ballots"])
    if ca != cb:
        d = list((ca - cb).items())[:1]
        return "ballots differ (as a multiset with voter metadata): %r" % (d,)
    return None


def minimal_reader(text):
    """Independent, deliberately naive reader: sections, ';'-cells (csv module only for quoted lines)."""
    sec, header = None, None
    meta, projects, votes = {}, [], []
    lines = text.splitlines()
    i = 0

    def cells(line):
        if '"' in line:
            return next(csv.reader([line], delimiter=";"))
        return line.split(";")
    while i < len(lines):
        line = lines[i]
        i += 1
        if not line.strip():
            continue
        cs_ = cells(line)
        w = cs_[0].strip().lower()
        if w in ("meta", "projects", "votes"):
            sec = w
            header = [h.strip() for h in cells(lines[i])]
            i += 1
            continue
        if sec == "meta":
            meta[cs_[0].strip()] = cs_[1].strip()
        elif sec == "projects":
            projects.append(dict(zip(header, [c.strip() for c in cs_])))
        elif sec == "votes":
            votes.append(dict(zip(header, [c.strip() for c in cs_])))
    return meta, projects, votes, header


def check_against_minimal(text, E):
    meta, projects, votes, _ = minimal_reader(text)
    if meta.get("vote_type") != E["vtype"]:
        return "vote_type %r vs %r" % (meta.get("vote_type"), E["vtype"])
    if F(meta["budget"].replace(",", ".")) != F(E["budget"]):
        return "budget"
    ids = {}
    for p in projects:
        pid = list(p.values())[0]
        ids.setdefault(pid, p)
    if len(ids) != len(E["projects"]):
        return "project count %d vs %d" % (len(ids), len(E["projects"]))
    got = {p["name"]: p for p in E["projects"]}
    for pid, p in ids.items():
        if pid not in got:
            return "project %r missing" % pid
        if F(p["cost"].replace(",", ".")) != F(got[pid]["cost"]):
            return "cost of %r" % pid
        if p.get("name", "None").lower() != "none" and dict(map(tuple, got[pid]["meta"])).get("name") != p["name"]:
            return "name of %r" % pid
    if len(votes) != len(E["ballots"]):
        return "vote count %d vs %d" % (len(votes), len(E["ballots"]))
    vt = E["vtype"]
    for v, b in zip(votes, E["ballots"]):
        names = v["vote"].split(",") if v["vote"].strip() else []
        if vt == "approval":
            if sorted(set(names)) != sorted(b["projects"]):
                return "approval ballot of voter %r" % v.get("voter_id")
        elif vt == "ordinal":
            if list(dict.fromkeys(names)) != b["projects"]:
                return "ordinal ballot of voter %r" % v.get("voter_id")
        else:
            pts = [F(x.strip()) for x in v["points"].split(",")] if v["points"].strip() else []
            want = {}
            for n, x in zip(names, pts):
                want[n] = x
            if want != {n: F(x) for n, x in zip(b["projects"], b["points"])}:
                return "scores of voter %r" % v.get("voter_id")
        vid = v.get("voter_id")
        if vid is not None and vid.lower() != "none" and dict(map(tuple, b["meta"])).get("voter_id") != vid:
            return "voter_id %r" % vid
        for k2 in ("age", "sex", "voting_method", "neighborhood", "education"):
            if k2 in v and v[k2].lower() != "none" and dict(map(tuple, b["meta"])).get(k2) != v[k2]:
                return "voter column %s of %r" % (k2, vid)
    return None


def corpus_check(path, xbin=None):
    from pabutools.election.pabulib import parse_pabulib_from_string, election_as_pabulib_string
    with open(path, "r", newline="", encoding="utf-8-sig") as f:
        text = f.read()
    i1, p1 = parse_pabulib_from_string(text)
    E1 = dump(i1, p1)
    summary = {"size": len(text), "nproj": len(E1["projects"]), "nvotes": len(E1["ballots"]), "vtype": E1["vtype"],
               "limits": sorted(k for k, v in E1["limits"].items() if v is not None),
               "quoted": '"' in text, "decimal_cost": any(F(p["cost"]).denominator != 1 for p in E1["projects"])}
    r = check_against_minimal(text, E1)
    if r:
        return {"code": 21, "detail": r, "summary": summary}
    if xbin and os.path.getsize(path) <= XPARSER_MAX_BYTES:
        st, Ex = run_xparser(xbin, path)
        summary["xparser"] = st
        if st == "ok":
            if Ex is None:
                return {"code": 23, "detail": "the model's parser fails on a file the library parses", "summary": summary}
            r = compare_elections(E1, Ex, full=True)
            if not r and [b["projects"] for b in E1["ballots"]] != [b["projects"] for b in Ex["ballots"]]:
                r = "ballots in a different order"
            if r:
                return {"code": 23, "detail": r, "summary": summary}
        elif st != "timeout":
            return {"code": 23, "detail": "extracted parser: " + st, "summary": summary}
    elif xbin:
        summary["xparser"] = "skipped_large"
    t2 = election_as_pabulib_string(i1, p1)
    i2, p2 = parse_pabulib_from_string(t2)
    E2 = dump(i2, p2)
    r = compare_elections(E1, E2, full=False)
    if r:
        return {"code": 20, "detail": r, "summary": summary}
    if len(text) > 1500000:
        summary["third_parse"] = False          # second round trip only for files below 1.5 MB
        return {"code": 0, "summary": summary}
    t3 = election_as_pabulib_string(i2, p2)
    i3, p3 = parse_pabulib_from_string(t3)
    E3 = dump(i3, p3)
    r = compare_elections(E2, E3, full=True)
    if r:
        return {"code": 22, "detail": r, "summary": summary}
    return {"code": 0, "summary": summary}


# ----------------------------------------------------------------------------------------------
# evidence
# ----------------------------------------------------------------------------------------------
def nontrivial(case, o):
    if not isinstance(o, dict):
        return None
    if case["kind"] == "corpus":
        s = o.get("summary") or {}
        return ["corpus", case["path"]] if s.get("nvotes") else None
    E = case.get("E")
    if case["kind"] == "rt":
        if E and E["projects"] and E["ballots"] and o.get("out1"):
            return ["rt", E]
        return None
    if E is None:
        return ["badfile", case["text"]] if o.get("out1") is None else None
    if E["projects"] and E["ballots"]:
        return ["file", case["text"]]
    return None


def stats(cases, obs):
    d = {"rt": 0, "file": 0, "file_malformed": 0, "corpus": 0, "vtype": {}, "multiprofile": 0, "parsed_like": 0,
         "fractional_cost": 0, "special_char_in_id": 0, "special_char_in_meta": 0, "with_categories": 0,
         "with_limits": 0, "limit_kept": 0, "limit_defaulted": 0, "ballot_order_checked": 0, "flag": {},
         "with_empty_ballot": 0, "no_project_meta_entry": 0, "quoted_text": 0, "crlf": 0, "blank_lines": 0, "corpus_votes": 0, "corpus_bytes": 0, "corpus_vtype": {},
         "corpus_quoted": 0, "corpus_with_limits": 0, "malformed_kinds": {},
         "extracted_parser": {}, "extracted_parser_build_error": None}
    for c, o in zip(cases, obs):
        if not isinstance(o, dict):
            continue
        k = c["kind"]
        if k == "corpus":
            d["corpus"] += 1
            s = o.get("summary") or {}
            d["corpus_votes"] += s.get("nvotes", 0)
            d["corpus_bytes"] += s.get("size", 0)
            d["corpus_vtype"][s.get("vtype", "?")] = d["corpus_vtype"].get(s.get("vtype", "?"), 0) + 1
            d["corpus_quoted"] += bool(s.get("quoted"))
            d["corpus_with_limits"] += bool(s.get("limits"))
            xp = s.get("xparser", "not_run")
            d["extracted_parser"][xp] = d["extracted_parser"].get(xp, 0) + 1
            if c.get("xerr"):
                d["extracted_parser_build_error"] = c["xerr"]
            continue
        E = c.get("E")
        if k == "file":
            d["file"] += 1
            t = c["text"]
            d["quoted_text"] += '"' in t
            d["crlf"] += "\r\n" in t
            d["blank_lines"] += ("\n\n" in t) or ("\n   " in t) or ("\n\t" in t)
            if E is None:
                d["file_malformed"] += 1
                d["malformed_kinds"][c.get("bad")] = d["malformed_kinds"].get(c.get("bad"), 0) + 1
                continue
        else:
            d["rt"] += 1
            d["multiprofile"] += bool(c["opts"].get("multi"))
            d["parsed_like"] += bool(c["opts"].get("parsed_like"))
            d["ballot_order_checked"] += bool(o.get("ordered"))
            if c.get("flag"):
                d["flag"][c["flag"]] = d["flag"].get(c["flag"], 0) + 1
        d["vtype"][E["vtype"]] = d["vtype"].get(E["vtype"], 0) + 1
        d["fractional_cost"] += any(F(p["cost"]).denominator != 1 for p in E["projects"])
        d["special_char_in_id"] += any((";" in p["name"]) or ('"' in p["name"]) for p in E["projects"])
        d["special_char_in_meta"] += any((";" in v) or ('"' in v) for p in E["projects"] for _, v in p["meta"]) or any(
            (";" in v) or ('"' in v) for b in E["ballots"] for _, v in b["meta"])
        d["with_categories"] += any(p["cats"] for p in E["projects"])
        d["with_empty_ballot"] += any(not b["projects"] for b in E["ballots"])
        d["no_project_meta_entry"] += bool(k == "rt" and c["opts"].get("no_project_meta"))
        lims = [kk for kk, v in E["limits"].items() if v is not None]
        d["with_limits"] += bool(lims)
        out = o.get("out1")
        if out and lims:
            kept = [kk for kk in lims if out["limits"].get(kk) is not None]
            d["limit_kept"] += bool(kept)
            d["limit_defaulted"] += len(kept) < len(lims)
    return d


def describe(case, o, code):
    if case["kind"] == "corpus":
        return {"file": case["path"], "detail": (o or {}).get("detail")}
    if case["kind"] == "file":
        return {"text": case["text"], "intended": case["E"], "parsed": (o or {}).get("out1")}
    return {"written_text": (o or {}).get("text"), "election": case["E"], "parsed_back": (o or {}).get("out1")}


def shrink(case):
    if case["kind"] != "rt":
        return
    E = case["E"]

    def with_(**kw):
        c = dict(case)
        e = dict(E)
        e.update(kw)
        c["E"] = e
        return c
    for j in range(len(E["ballots"])):
        yield with_(ballots=E["ballots"][:j] + E["ballots"][j + 1:])
    for j, p in enumerate(E["projects"]):
        if not any(p["name"] in b["projects"] for b in E["ballots"]):
            yield with_(projects=E["projects"][:j] + E["projects"][j + 1:])
    for j in range(len(E["meta"])):
        yield with_(meta=E["meta"][:j] + E["meta"][j + 1:])
    for j, p in enumerate(E["projects"]):
        for t in range(len(p["meta"])):
            if case["opts"].get("no_project_meta"):
                continue
            p2 = dict(p)
            p2["meta"] = p["meta"][:t] + p["meta"][t + 1:]
            yield with_(projects=E["projects"][:j] + [p2] + E["projects"][j + 1:])
        if p["cats"] or p["targets"]:
            p2 = dict(p)
            p2["cats"], p2["targets"] = [], []
            yield with_(projects=E["projects"][:j] + [p2] + E["projects"][j + 1:])
    for j, b in enumerate(E["ballots"]):
        for t in range(len(b["meta"])):
            b2 = dict(b)
            b2["meta"] = b["meta"][:t] + b["meta"][t + 1:]
            yield with_(ballots=E["ballots"][:j] + [b2] + E["ballots"][j + 1:])
    if any(v is not None for v in E["limits"].values()):
        for k in LIMS:
            if E["limits"].get(k) is not None:
                L = dict(E["limits"])
                L[k] = None
                yield with_(limits=L)
    if case["opts"].get("multi") or case["opts"].get("parsed_like"):
        c = dict(case)
        c["opts"] = dict(case["opts"], multi=False)
        yield c
