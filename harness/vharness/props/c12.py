"""C12 -- priceability analysis is sound and complete on decidable instances.

One case = one small approval election + one `priceable(...)` call (allocation given / searched / an
Equal Shares outcome; stable or plain; exhaustive on or off) + a handful of `validate_price_system`
queries on exact price systems and on perturbations of them.

The exact decision "is there a price system for W" is taken by a small exact-rational simplex written
here (`lp_feasible`).  It is NOT trusted: it has to hand a witness price system or Farkas multipliers to
the case file, where only the verified Coq checkers `check_witness` / `check_farkas` decide."""
from __future__ import annotations

import itertools
import random
from fractions import Fraction

from .. import core
from ..core import q, lst, natl, boolc, opt, pair
from .. import pb
from . import c12_lp as LP

ID = "C12"
ORACLE = "Oracle.C12"
PROPS = ["Props/C12.v", "Props/C12relax.v", "Props/C12gen.v"]
LEVEL = "proof"
SHARD = 60
MAX_DISCARD = 0.03
CODES = {
    1: ("oracle", "validate_price_system rejects an exact price system (accepted by the verified check_witness)"),
    2: ("oracle", "validate_price_system accepts a pair that breaks a condition of the definition by >= 0.1 "
                  "(or one of the exact conditions C0a/C0b/C1/non-negativity)"),
    3: ("model", "validate_price_system differs from Model.validate_ps"),
    4: ("oracle", "priceable reports failure although a price system exists (witness accepted by the verified check_witness)"),
    5: ("oracle", "priceable reports success although no price system exists (Farkas certificates accepted by the verified check_farkas)"),
    6: ("oracle", "priceable returned an infeasible allocation or one different from the allocation it was given"),
    7: ("model", "harness certificate rejected by the verified checker (exact LP of the harness is at fault)"),
    8: ("oracle", "the price system returned by priceable does not pass validate_price_system (and no compared pair sits across a rounding boundary within 1e-9)"),
    9: ("oracle", "the price system returned by priceable breaks a condition of the definition by more than 1e-6 (check_ps_eps_g)"),
    10: ("oracle", "priceable (plain, exhaustive=False) fails on an outcome of the Method of Equal Shares"),
    11: ("model", "the rows of the mip model built by priceable() differ from Model.ps_constraints on an assignment"),
    12: ("oracle", "priceable(stable=True, relaxation=R) fails although a relaxed price system exists (accepted by the verified check_witness_g)"),
    13: ("oracle", "priceable(stable=True, relaxation=R) succeeds although no relaxed price system exists (Farkas certificates accepted by the verified check_farkas)"),
    14: ("oracle", "the beta reported by priceable(..., relaxation=R) is not minimal: it differs from the certified minimum of the objective by more than 1e-6"),
    15: ("model", "priceable(..., relaxation=R) succeeds although the harness found the rows of the model infeasible"),
    16: ("oracle", "the parameters returned for a relaxation are outside the documented range of its class"),
    core.RAISED: ("oracle", "the call raised / the interpreter died outside the solver"),
}
RULE = ("approval elections with 1..4 voters, 1..4 projects, integer costs 1..4 (plus a boundary stream with one "
        "cost > 10 x budget), integer budgets from 1 to the total cost, ballots incl. empty/full/duplicates; "
        "candidate allocation = a feasible (exhaustive) subset, a random subset (all subsets in the thorough tier), an "
        "Equal Shares outcome, an infeasible subset, or searched; two thirds of the cases: relaxation=None, stable/plain "
        "x exhaustive on/off; one third: stable=True with relaxation = MinMul / MinAdd / MinAddVector / "
        "MinAddVectorPositive / MinAddOffset (evenly), exhaustive on/off; validator queries = exact LP / Equal Shares / "
        "equal-split price systems (relaxed calls: the exact optimum with exactly set beta) and perturbations of every "
        "condition and of beta by 0.1..1 and by sub-tolerance amounts; non-trivial = distinct (election, call) whose "
        "answer needed the LP (not rejected on cost alone)")
ASSUMPTIONS = [
    "hand-written Gallina model of priceability.py / priceability_relaxation.py / utils.round_cmp tied to the code by "
    "differential execution only",
    "gmpy2 mpq arithmetic and round(mpq, 2) = exact Q and round-half-even on Q",
    "CBC: every answer re-validated against the model rows (tolerance 1e-6 on continuous variables); invalid answers "
    "and solver crashes are discarded and counted; for relaxations a reported optimum that is not the certified minimum "
    "is discarded as a solver fault ONLY when CBC contradicts itself on the same model object (smaller optimum without "
    "preprocessing, or after fixing x to the certified-optimal allocation, with the library's own optimize() arguments)",
    "completeness is checked on integer costs/budgets >= 1 and <= 4 voters (hypotheses of encoding_complete)",
    "a returned price system must break no condition by more than 1e-6 (check_ps_eps_g); the library validator's verdict on "
    "it is required to be True unless a compared pair lies within 1e-9 of each other across a rounding boundary "
    "(boundary noise, computed by the harness from the returned floats; such verdicts are unspecified by the property)",
    "relaxations are exercised with stable=True only (with stable=False the library adds beta and the objective but no "
    "stability row); the float 0.025 * budget of MinAddOffset is modelled as 1/40 * budget",
]
TRUSTED = ["Model/Priceability.v mirrors pabutools/analysis/priceability.py, priceability_relaxation.py and "
           "utils.round_cmp (modelled, not verified)",
           "the exact-rational simplex of the harness is NOT trusted: its witnesses / optima / Farkas multipliers are checked "
           "in Coq by check_witness_g / ps_constraints_g / check_farkas (proved sound)",
           "the boundary-noise flag of a returned price system is computed by the harness (not in Coq)"]
EXPLANATION = ("Theorems (unbounded, 18 + 21, closed under the global context): banker's rounding is monotone and within "
               "1/200; validator (with or without relaxation) complete on exact price systems and sound up to 1/100; "
               "check_witness sound and complete, Farkas checker sound for any linear system, every (relaxed) price system "
               "solves ps_rows_g; the MIP rows of priceable() incl. the rows of the five relaxation classes are sound for the "
               "definition and complete under the stated hypotheses (integral data, budget >= 1, <= 10 voters resp. parameters "
               "within relax_range); neutral beta = stable priceability; feasible betas are upward closed; certified lower "
               "bound on the objective of the relaxed MIP; infeasible allocations are never priceable; integrality is "
               "necessary. Tie: (1) validate_price_system vs verified checkers (oracle) and vs the model (correspondence) on "
               "exact price systems and perturbations; (2) priceable's answer vs the exact decision certified by "
               "check_witness / check_farkas; (3) returned witnesses re-checked (1e-6) and the library validator's verdict on "
               "them; (4) the captured mip model's rows evaluated exactly vs Model.ps_constraints_g; (5) relaxations: reported "
               "beta vs the certified minimum (within 1e-6).")

try:  # exact rationals: gmpy2 when present (fast), Fraction otherwise
    from gmpy2 import mpq as _Q
except Exception:  # pragma: no cover
    _Q = Fraction


def Qm(x):
    if isinstance(x, Fraction):
        return _Q(x.numerator, x.denominator)
    return _Q(x)


def toF(x) -> Fraction:
    return Fraction(int(x.numerator), int(x.denominator))


# ----------------------------------------------------------------------------------------------
# the linear system "there is a price system for W" -- same rows, same order as Model.ps_rows
# ----------------------------------------------------------------------------------------------
def ps_rows_py(costs, B, ballots, W, stable, lb):
    m, n = len(costs), len(ballots)
    C, N = range(m), range(n)
    NW = [c for c in C if c not in W]
    sup = lambda c: [i for i in N if c in ballots[i]]
    rows = []   # (dict var->coef, rhs, tag)
    rows.append(({("b",): -1}, 0, ("b0",)))
    for i in N:
        for c in C:
            rows.append(({("p", i, c): -1}, 0, ("p0", i, c)))
    for i in N:
        for c in C:
            if c not in ballots[i]:
                rows.append(({("p", i, c): 1}, 0, ("c1", i, c)))
    for i in N:
        d = {("b",): -1}
        for c in C:
            d[("p", i, c)] = 1
        rows.append((d, 0, ("c2", i)))
    for c in W:
        rows.append(({("p", i, c): 1 for i in N}, costs[c], ("c3le", c)))
        rows.append(({("p", i, c): -1 for i in N}, -costs[c], ("c3ge", c)))
    for c in NW:
        rows.append(({("p", i, c): 1 for i in N}, 0, ("c4", c)))
    if stable:
        for i in N:
            for c in C:
                rows.append(({("p", i, c): 1, ("m", i): -1}, 0, ("sp", i, c)))
        for i in N:
            d = {("m", i): -1, ("b",): 1}
            for c in C:
                d[("p", i, c)] = -1
            rows.append((d, 0, ("sl", i)))
        for i in N:
            rows.append(({("m", i): -1}, 0, ("m0", i)))
        for c in NW:
            rows.append(({("m", i): 1 for i in sup(c)}, costs[c], ("s5", c)))
    else:
        for c in NW:
            d = {}
            for i in sup(c):
                d[("b",)] = d.get(("b",), 0) + 1
                for c2 in C:
                    d[("p", i, c2)] = d.get(("p", i, c2), 0) - 1
            rows.append((d, costs[c], ("c5", c)))
    if lb:
        rows.append(({("b",): -n}, -B, ("lb",)))
    return rows


def lp_feasible(A, rhs, nvar):
    """x >= 0, A x <= rhs.  Phase-1 simplex on exact rationals, Bland's rule.
    Returns ("sat", x) or ("unsat", y) with y >= 0, y^T A >= 0, y^T rhs < 0."""
    R = len(A)
    zero, one = _Q(0), _Q(1)
    art_rows = [j for j in range(R) if rhs[j] < 0]
    ncol = nvar + R + len(art_rows)
    T = []
    basis = []
    ak = 0
    for j in range(R):
        s = -1 if rhs[j] < 0 else 1
        row = [zero] * (ncol + 1)
        for k, a in A[j].items():
            row[k] = Qm(a) * s
        row[nvar + j] = _Q(s)
        row[ncol] = Qm(rhs[j]) * s
        if s < 0:
            col = nvar + R + ak
            ak += 1
            row[col] = one
            basis.append(col)
        else:
            basis.append(nvar + j)
        T.append(row)
    # reduced costs of  min sum(artificials)
    rc = [zero] * (ncol + 1)
    for k in range(nvar + R, ncol):
        rc[k] = one
    for j in range(R):
        if basis[j] >= nvar + R:
            rj = T[j]
            for k in range(ncol + 1):
                if rj[k]:
                    rc[k] -= rj[k]
    for _ in range(20000):
        ent = -1
        for k in range(ncol):
            if rc[k] < 0:
                ent = k
                break
        if ent < 0:
            break
        best, bj = None, -1
        for j in range(R):
            a = T[j][ent]
            if a > 0:
                r = T[j][ncol] / a
                if best is None or r < best or (r == best and basis[j] < basis[bj]):
                    best, bj = r, j
        if bj < 0:
            raise RuntimeError("phase 1 unbounded (impossible)")
        piv = T[bj][ent]
        prow = [v / piv if v else v for v in T[bj]]
        T[bj] = prow
        nz = [k for k in range(ncol + 1) if prow[k]]
        for j in range(R):
            if j != bj:
                f = T[j][ent]
                if f:
                    rj = T[j]
                    for k in nz:
                        rj[k] -= f * prow[k]
        f = rc[ent]
        if f:
            for k in nz:
                rc[k] -= f * prow[k]
        basis[bj] = ent
    else:
        raise RuntimeError("simplex did not terminate")
    w = -rc[ncol]
    if w > 0:
        return "unsat", [rc[nvar + j] for j in range(R)]
    x = [zero] * nvar
    for j in range(R):
        if basis[j] < nvar:
            x[basis[j]] = T[j][ncol]
    return "sat", x


def tcost(costs, W):
    return sum(costs[c] for c in W)


def is_exh(costs, B, W):
    t = tcost(costs, W)
    return all(t + costs[c] > B for c in range(len(costs)) if c not in W)


def decide_W(costs, B, ballots, W, stable, exh, lb):
    """-> ("witness", b, P) | ("farkas", ys)  (ys aligned with Model.ps_rows, integers)"""
    m, n = len(costs), len(ballots)
    if tcost(costs, W) > B or (exh and not is_exh(costs, B, W)):
        return ("farkas", [])
    rows = ps_rows_py(costs, B, ballots, W, stable, lb)
    # presolve: payments forced to zero (unapproved, or project not selected) are dropped
    dead = set()
    for i in range(n):
        for c in range(m):
            if c not in ballots[i] or c not in W:
                dead.add(("p", i, c))
    keep_vars = []
    for d, r, tag in rows:
        for v in d:
            if v not in dead and v not in keep_vars:
                keep_vars.append(v)
    idx = {v: k for k, v in enumerate(keep_vars)}
    sub, subj = [], []
    for j, (d, r, tag) in enumerate(rows):
        if tag[0] in ("b0", "p0", "c1", "c4", "m0"):
            continue
        if tag[0] == "sp" and ("p", tag[1], tag[2]) in dead:
            continue
        dd = {idx[v]: a for v, a in d.items() if v in idx and a != 0}
        if not dd:
            if r < 0:       # 0 <= negative: the row alone is a certificate
                ys = [0] * len(rows)
                ys[j] = 1
                return ("farkas", _complete(rows, ys, ballots, W))
            continue
        sub.append(dd)
        subj.append(j)
    st, sol = lp_feasible(sub, [rows[j][1] for j in subj], len(keep_vars))
    if st == "sat":
        b = toF(sol[idx[("b",)]]) if ("b",) in idx else Fraction(0)
        P = [[toF(sol[idx[("p", i, c)]]) if ("p", i, c) in idx else Fraction(0) for c in range(m)]
             for i in range(n)]
        return ("witness", b, P)
    ys = [Fraction(0)] * len(rows)
    for j, y in zip(subj, sol):
        ys[j] = toF(y)
    return ("farkas", _complete(rows, ys, ballots, W))


def _complete(rows, ys, ballots, W):
    """Extend multipliers of the presolved system to the full system: cancel every column with the bound rows."""
    ys = [Fraction(y) for y in ys]
    tagidx = {tag: j for j, (_, _, tag) in enumerate(rows)}

    def resid():
        r = {}
        for y, (d, _, _) in zip(ys, rows):
            if y:
                for v, a in d.items():
                    r[v] = r.get(v, 0) + y * a
        return r
    r = resid()
    # C4 rows lift every column of a non-selected project to >= 0
    for tag, j in tagidx.items():
        if tag[0] == "c4":
            c = tag[1]
            low = min([r.get(v, 0) for v in rows[j][0]] + [0])
            if low < 0:
                ys[j] += -low
    r = resid()
    for v, val in r.items():
        if val < 0:
            if v[0] == "p" and ("c1", v[1], v[2]) in tagidx:
                ys[tagidx[("c1", v[1], v[2])]] += -val
            else:
                raise RuntimeError("negative residual on a live column %r" % (v,))
    r = resid()
    for v, val in r.items():
        if val > 0:
            t = ("b0",) if v[0] == "b" else (("p0", v[1], v[2]) if v[0] == "p" else ("m0", v[1]))
            ys[tagidx[t]] += val
    r = resid()
    if any(val != 0 for val in r.values()) or any(y < 0 for y in ys) or \
            sum(y * rr for y, (_, rr, _) in zip(ys, rows)) >= 0:
        raise RuntimeError("internal: Farkas completion failed")
    den = 1
    for y in ys:
        den = den * y.denominator // _gcd(den, y.denominator)
    return [int(y * den) for y in ys]


def _gcd(a, b):
    while b:
        a, b = b, a % b
    return a


# ----------------------------------------------------------------------------------------------
# generation
# ----------------------------------------------------------------------------------------------
def budget(tier):
    return 2000 if tier == "quick" else 15000


EXHAUSTIVE = {}


def gen(rng, i, tier):
    n = rng.choice([1, 2, 2, 3, 3, 3, 4, 4, 4])
    m = rng.choice([1, 2, 3, 3, 4, 4, 4])
    costs = [rng.choice([1, 1, 2, 2, 3, 4]) for _ in range(m)]
    tot = sum(costs)
    boundary = (i % 11 == 7)
    if boundary:
        B = rng.choice([1, 1, 2])
        costs[rng.randrange(m)] = 10 * B + rng.choice([1, 1, 2, 5])
    else:
        mode = rng.randrange(5)
        if mode == 0:
            B = tot
        elif mode == 1:
            B = max(1, sum(rng.sample(costs, rng.randrange(1, m + 1))))
        elif mode == 2:
            B = min(costs)
        else:
            B = rng.randrange(1, tot + 2)
    ballots = []
    style = rng.randrange(6)
    for v in range(n):
        if style == 0:
            bal = list(range(m))
        elif style == 1 and ballots and rng.random() < 0.6:
            bal = list(ballots[-1])
        else:
            k = rng.choice([0, 1, 1, 2, 2, 3, m])
            bal = sorted(rng.sample(range(m), min(k, m)))
        ballots.append(bal)
    stable = rng.random() < 0.45
    exh = rng.random() < 0.5
    akind = rng.choice(["given"] * 9 + ["searched"] * 4 + ["mes"] * 3 + ["infeasible"] * 2 + ["random"] * 2)
    alloc = None
    allsubs = [list(s) for r in range(m + 1) for s in itertools.combinations(range(m), r)]
    if akind == "given":
        # a feasible (and, when asked for, exhaustive) subset: the answer then depends on the payments
        subs = [s for s in allsubs if sum(costs[c] for c in s) <= B]
        if exh:
            subs = [s for s in subs if is_exh(costs, B, s)] or subs
        alloc = rng.choice(subs)
    elif akind == "random":
        alloc = rng.choice(allsubs)
    elif akind == "infeasible":
        subs = [s for s in allsubs if sum(costs[c] for c in s) > B]
        if subs:
            alloc = rng.choice(subs)
        else:
            akind, alloc = "random", list(range(m))
    elif akind == "mes":
        stable = rng.random() < 0.15
        exh = rng.random() < 0.25
    case = {"costs": costs, "budget": B, "ballots": ballots, "akind": akind, "alloc": alloc,
            "stable": stable, "exh": exh, "pseed": rng.randrange(1 << 30), "boundary": boundary, "solver": True}
    if i % 3 == 1:
        # a relaxed call: priceable(..., stable=True, relaxation=R(instance, profile))
        case["relax"] = rng.choice(LP.KINDS)
        case["stable"] = True
    return case


# ----------------------------------------------------------------------------------------------
# running the implementation
# ----------------------------------------------------------------------------------------------
def _exact(x) -> str:
    return pb.qs(Fraction(x) if isinstance(x, float) else pb.F(x))


def _num(x: Fraction):
    return pb.num(x)


def _validate(inst, prof, projs, W, b, P, stable, exh):
    from pabutools.analysis.priceability import validate_price_system

    pf = [{projs[c]: _num(P[i][c]) for c in range(len(projs))} for i in range(len(P))]
    return bool(validate_price_system(inst, prof, [projs[c] for c in W], _num(b), pf, stable=stable, exhaustive=exh))


def _boundary_noise(inst, prof, Wp, b, pf, stable, relaxation=None):
    """Is some pair (lhs, rhs) that validate_price_system compares within 1e-9 of each other while
    round(lhs, 2) != round(rhs, 2)?  Then rounding each side separately turns float noise of the solver into a
    difference of 0.01 and the validator's verdict on the returned system is unspecified (the property leaves
    verdicts within the tolerance open).  Same sums, same iteration order as the library."""
    C, N = inst, prof
    NW = [c for c in C if c not in Wp]
    spent = [sum(pf[idx][c] for c in C) for idx, _ in enumerate(N)]
    leftover = [(b - spent[idx]) for idx, _ in enumerate(N)]
    max_payment = [max((pf[idx][c] for c in C), default=0) for idx, _ in enumerate(N)]
    pairs = []
    for idx, _ in enumerate(N):
        for c in C:
            pairs.append((pf[idx][c], 0))
        pairs.append((spent[idx], b))
    for c in Wp:
        pairs.append((sum(pf[idx][c] for idx, _ in enumerate(N)), c.cost))
    for c in NW:
        pairs.append((sum(pf[idx][c] for idx, _ in enumerate(N)), 0))
        if not stable:
            pairs.append((sum(leftover[idx] for idx, i in enumerate(N) if c in i), c.cost))
        else:
            s_ = sum(max(max_payment[idx], leftover[idx]) for idx, i in enumerate(N) if c in i)
            pairs.append((s_, c.cost if relaxation is None else relaxation.get_relaxed_cost(c)))
    noise = any(abs(l - r) <= 1e-9 and round(l, 2) != round(r, 2) for l, r in pairs)

    def near_edge(x):       # within 1e-9 of a value k + 1/2 hundredths, where round(., 2) jumps
        y = float(x) * 100.0 - 0.5
        return abs(y - round(y)) <= 1e-7
    edge = noise or any(abs(l - r) <= 1e-9 and (near_edge(l) or near_edge(r)) for l, r in pairs)
    return noise, edge


def _structured(rng, costs, B, ballots, W, b, P, stable, exh, k):
    """Perturbations that KEEP the aggregates a lazy validator might check instead of the per-item conditions:
       shiftproj  a voter moves d of her payment from one selected project to another one she approves
                  (her spending, the grand total and every leftover unchanged; C3 broken on two projects)
       shiftvoter d of the payment for one project moves from one supporter to another (project totals, grand
                  total and the sum of leftovers unchanged; per-voter C2 / per-project C5, S5 change)
       swapproj   the payment columns of two selected projects with different costs are swapped
                  (per-voter spending and grand total unchanged; C3 broken on both)
       scale      all payments and the voter budget are multiplied by a factor (ratios kept; C3 broken everywhere)
       c1cancel_* tiny cancelling payments for unapproved projects (C1 is exact)
    The Coq side classifies each variant (exact / broken by the margin / in between)."""
    m, n = len(costs), len(ballots)
    N = list(range(n))
    big = [Fraction(1, 10), Fraction(1, 8), Fraction(1, 4), Fraction(1, 2), Fraction(1), Fraction(101, 1000)]

    def cp():
        return [list(r) for r in P]

    def amount(have):
        d = rng.choice(big)
        if have >= Fraction(1, 10) and rng.random() < 0.8:
            d = min(d, have)                 # stay non-negative: only the aimed-at condition breaks
        return d
    cands = []
    Wl = list(W)
    # shiftproj
    opts = [(i, c1, c2) for i in N for c1 in Wl for c2 in Wl
            if c1 != c2 and c1 in ballots[i] and c2 in ballots[i] and P[i][c1] > 0]
    if opts:
        i, c1, c2 = rng.choice(opts)
        d = amount(P[i][c1])
        Q2 = cp()
        Q2[i][c1] -= d
        Q2[i][c2] += d
        cands.append(("shiftproj", W, b, Q2, stable, exh))
    # shiftvoter
    opts = [(c, i, j) for c in Wl for i in N for j in N
            if i != j and c in ballots[i] and c in ballots[j] and P[i][c] > 0]
    if opts:
        c, i, j = rng.choice(opts)
        d = amount(P[i][c])
        Q2 = cp()
        Q2[i][c] -= d
        Q2[j][c] += d
        cands.append(("shiftvoter", W, b, Q2, stable, exh))
        # the same with the budget raised so that the receiver stays within it: leftovers move instead
        cands.append(("shiftvoter_b", W, max(b, sum(Q2[j])), Q2, stable, exh))
    # swapproj
    opts = [(c1, c2) for c1 in Wl for c2 in Wl if c1 < c2 and costs[c1] != costs[c2]]
    if opts:
        c1, c2 = rng.choice(opts)
        Q2 = cp()
        for i in N:
            Q2[i][c1], Q2[i][c2] = Q2[i][c2], Q2[i][c1]
        cands.append(("swapproj", W, b, Q2, stable, exh))
    # scale
    if Wl:
        f = rng.choice([Fraction(11, 10), Fraction(9, 10), Fraction(5, 4), Fraction(3, 4), Fraction(2), Fraction(1, 2),
                        Fraction(201, 200)])
        cands.append(("scale", W, b * f, [[x * f for x in row] for row in P], stable, exh))
    # c1cancel: tiny payments for UNAPPROVED projects that cancel (C1 is exact in the code: any non-zero amount
    # counts), within one voter's spending or within one project's total -- invisible to every rounded sum
    eps = rng.choice([Fraction(1, 250), Fraction(1, 1000), Fraction(1, 10 ** 6)])
    un = [(i, c) for i in N for c in range(m) if c not in ballots[i]]
    opts = [(i, c1, c2) for (i, c1) in un for (i2, c2) in un if i == i2 and c1 != c2]
    if opts and rng.random() < 0.6:
        i, c1, c2 = rng.choice(opts)
        Q2 = cp()
        Q2[i][c1] += eps
        Q2[i][c2] -= eps
        cands.append(("c1cancel_voter", W, b, Q2, stable, exh))
    opts = [(c, i, j) for (i, c) in un for (j, c2) in un if c == c2 and i != j]
    if opts and rng.random() < 0.6:
        c, i, j = rng.choice(opts)
        Q2 = cp()
        Q2[i][c] += eps
        Q2[j][c] -= eps
        cands.append(("c1cancel_project", W, b, Q2, stable, exh))
    rng.shuffle(cands)
    return cands[:k]


def _perturbations(rng, costs, B, ballots, W, b, P, stable, exh, k):
    """Variants of a price system, each aimed at one condition; the Coq side classifies them
    (exact / broken by the margin / in between)."""
    m, n = len(costs), len(ballots)
    C, N = list(range(m)), list(range(n))
    NW = [c for c in C if c not in W]
    big = [Fraction(1, 10), Fraction(1, 8), Fraction(1, 4), Fraction(1), Fraction(101, 1000)]
    small = [Fraction(1, 200), Fraction(3, 200), Fraction(1, 100), Fraction(1, 1000), Fraction(1, 50),
             Fraction(99, 10000), Fraction(51, 10000)]
    out = []

    def cp():
        return [list(r) for r in P]
    kinds = ["c2", "c3+", "c3-", "c4", "c1", "neg", "c5", "flip_exh", "flip_stable", "otherW", "b-"]
    rng.shuffle(kinds)
    for kind in kinds:
        if len(out) >= k:
            break
        d = rng.choice(big if rng.random() < 0.7 else small)
        sp = [sum(P[i]) for i in N]
        if kind == "c2" and n:
            out.append((kind, W, max(sp) - d, cp(), stable, exh))
        elif kind == "b-":
            out.append((kind, W, b - d, cp(), stable, exh))
        elif kind in ("c3+", "c3-") and W:
            c = rng.choice(W)
            sup = [i for i in N if c in ballots[i]]
            if not sup:
                continue
            i = rng.choice(sup)
            Q2 = cp()
            Q2[i][c] += d if kind == "c3+" else -d
            out.append((kind, W, b + (d if kind == "c3+" else 0), Q2, stable, exh))
        elif kind == "c4" and NW:
            c = rng.choice(NW)
            sup = [i for i in N if c in ballots[i]]
            if not sup:
                continue
            i = rng.choice(sup)
            Q2 = cp()
            Q2[i][c] += d
            out.append((kind, W, b + d, Q2, stable, exh))
        elif kind == "c1":
            un = [(i, c) for i in N for c in C if c not in ballots[i]]
            if not un:
                continue
            i, c = rng.choice(un)
            Q2 = cp()
            Q2[i][c] += rng.choice([d, Fraction(1, 1000), Fraction(1, 10 ** 6)])
            out.append((kind, W, b + 1, Q2, stable, exh))
        elif kind == "neg":
            # money moved between two voters through a project (payments sum is unchanged)
            cands = [c for c in C if len([i for i in N if c in ballots[i]]) >= 2]
            if not cands:
                continue
            c = rng.choice(cands)
            i, j = rng.sample([i for i in N if c in ballots[i]], 2)
            Q2 = cp()
            dd = Q2[i][c] + d
            Q2[i][c] -= dd           # becomes -d
            Q2[j][c] += dd
            out.append((kind, W, b + dd, Q2, stable, exh))
        elif kind == "c5":
            out.append((kind, W, b + d * rng.choice([1, 2, 5]), cp(), stable, exh))
        elif kind == "flip_exh":
            out.append((kind, W, b, cp(), stable, not exh))
        elif kind == "flip_stable":
            out.append((kind, W, b, cp(), not stable, exh))
        elif kind == "otherW":
            W2 = sorted(rng.sample(C, rng.randrange(0, m + 1)))
            if W2 != sorted(W):
                out.append((kind, W2, b, cp(), stable, exh))
    return out


def _equal_split(costs, ballots, W):
    n, m = len(ballots), len(costs)
    P = [[Fraction(0)] * m for _ in range(n)]
    for c in W:
        sup = [i for i in range(n) if c in ballots[i]]
        for i in sup:
            P[i][c] = Fraction(costs[c], len(sup))
    b = max([sum(r) for r in P] + [Fraction(0)])
    return b, P


_CAPTURED = []


def _install_capture():
    """Record the mip model that priceable() builds (no source hook: the name `Model` of the module
    is rebound to a recording subclass)."""
    import mip
    import pabutools.analysis.priceability as PR

    if getattr(PR.Model, "_verif_rec", False):
        return

    class Rec(mip.Model):
        _verif_rec = True

        def __init__(self, *a, **k):
            super().__init__(*a, **k)
            self._verif_calls = []
            _CAPTURED.append(self)

        def optimize(self, *a, **k):
            self._verif_calls.append((a, dict(k)))
            return super().optimize(*a, **k)
    PR.Model = Rec


def _rows_hold(model, projs, n, Wx, b, P, stable):
    """Exact evaluation of every bound and row of the captured model on the assignment induced by
    (Wx, b, P): x = indicator, r = b - spent, m = max(largest payment, leftover)."""
    import mip

    m_ = len(projs)
    val = {"voter_budget": b}
    for i in range(n):
        sp = sum(P[i], Fraction(0))
        for c in range(m_):
            val["p_%d_%s" % (i, projs[c].name)] = P[i][c]
        left = b - sp
        val["r_%d" % i] = left
        val["m_%d" % i] = max([max(P[i]) if P[i] else Fraction(0), left])
    for c in range(m_):
        val["x_%s" % projs[c].name] = Fraction(1 if c in Wx else 0)
    for v in model.vars:
        x = val[v.name]
        if x < Fraction(v.lb) or (v.ub < 1e300 and x > Fraction(v.ub)):
            return False
        if v.var_type == mip.BINARY and x not in (0, 1):
            return False
    for con in model.constrs:
        e = con.expr
        sacc = Fraction(e.const)
        for v, co in e.expr.items():
            sacc += Fraction(co) * val[v.name]
        if e.sense == "<":
            ok = sacc <= 0
        elif e.sense == ">":
            ok = sacc >= 0
        else:
            ok = sacc == 0
        if not ok:
            return False
    return True



# ----------------------------------------------------------------------------------------------
# relaxations of stable priceability
# ----------------------------------------------------------------------------------------------
_RELAX_CONSTS = None
OBJ_DELTA = Fraction(1, 10 ** 7)


def relax_consts():
    """the constants of priceability_relaxation.py, read from the source the same way Generated/Anchors.v is"""
    global _RELAX_CONSTS
    if _RELAX_CONSTS is None:
        import os
        from .. import anchors

        f = anchors.extract(os.environ.get("VERIF_REPO", "/repo"))
        num, den = f["RELAX_BUDGET_FRACTION"]
        _RELAX_CONSTS = {"inf_factor": f["RELAX_INF_FACTOR"], "cap_factor": f["RELAX_VEC_CAP_FACTOR"],
                         "fraction": Fraction(num, den)}
    return _RELAX_CONSTS


def _relax_class(kind):
    import pabutools.analysis.priceability_relaxation as RX

    return {"mul": RX.MinMul, "add": RX.MinAdd, "vec": RX.MinAddVector, "vecpos": RX.MinAddVectorPositive,
            "off": RX.MinAddOffset}[kind]


def _R_of_point(kind, m, point):
    g = point.get(("g",), Fraction(0))
    bc = [point.get(("bc", c), Fraction(0)) for c in range(m)]
    return {"kind": kind, "g": g, "bc": bc}


def _R_json(R):
    return {"kind": R["kind"], "g": pb.qs(R["g"]), "bc": [pb.qs(x) for x in R["bc"]]}


def _R_obj(R):
    return R["g"] if R["kind"] in ("mul", "add", "off") else sum(R["bc"], Fraction(0))


def _set_beta(rel, kind, projs, R):
    """put exact parameter values into a relaxation object (what get_beta() would have saved)"""
    import collections

    if kind in ("mul", "add"):
        rel._saved_beta = _num(R["g"])
        return
    d = collections.defaultdict(int)
    for c, x in enumerate(R["bc"]):
        if x != 0:
            d[projs[c]] = _num(x)
    sb = {"beta": d, "sum": sum(d.values())}
    if kind == "off":
        sb["beta_global"] = _num(R["g"])
    rel._saved_beta = sb


def _validate_relaxed(inst, prof, projs, kind, W, b, P, R, exh):
    from pabutools.analysis.priceability import validate_price_system

    rel = _relax_class(kind)(inst, prof)
    _set_beta(rel, kind, projs, R)
    pf = [{projs[c]: _num(P[i][c]) for c in range(len(projs))} for i in range(len(P))]
    return bool(validate_price_system(inst, prof, [projs[c] for c in W], _num(b), pf, stable=True,
                                      exhaustive=exh, relaxation=rel))


def _claims(costs, ballots, b, P):
    out = []
    for i in range(len(ballots)):
        sp = sum(P[i], Fraction(0))
        out.append(max([max(P[i]) if P[i] else Fraction(0), b - sp]))
    return out


def _big_beta_witness(kind, costs, B, ballots, W, b, P, consts):
    """parameters large enough for (b, P) to be a relaxed price system (existence only)"""
    m, n = len(costs), len(ballots)
    cl = _claims(costs, ballots, b, P)
    need = {c: sum((cl[i] for i in range(n) if c in ballots[i]), Fraction(0)) for c in range(m) if c not in W}
    if kind == "mul":
        g = max([Fraction(0)] + [need[c] / costs[c] for c in need])
        return {"kind": kind, "g": g, "bc": [Fraction(0)] * m}
    if kind in ("add", "off"):
        g = max([Fraction(0)] + [need[c] - costs[c] for c in need])
        return {"kind": kind, "g": g, "bc": [Fraction(0)] * m}
    return {"kind": kind, "g": Fraction(0),
            "bc": [max(Fraction(0), need[c] - costs[c]) if c in need else Fraction(0) for c in range(m)]}


def _point_bP(point, n, m):
    b = point.get(("b",), Fraction(0))
    P = [[point.get(("p", i, c), Fraction(0)) for c in range(m)] for i in range(n)]
    return b, P


def _rows_hold_relaxed(model, projs, n, Wx, b, P, R, tol=Fraction(1, 10 ** 9)):
    """every bound and row of the captured relaxed model on the assignment induced by (Wx, b, P, R);
    rows within 1e-9 (the library multiplies the float 0.025 by the budget)"""
    import mip

    m_ = len(projs)
    val = {"voter_budget": b, "beta": R["g"]}
    for i in range(n):
        sp = sum(P[i], Fraction(0))
        for c in range(m_):
            val["p_%d_%s" % (i, projs[c].name)] = P[i][c]
        val["m_%d" % i] = max([max(P[i]) if P[i] else Fraction(0), b - sp])
    for c in range(m_):
        val["x_%s" % projs[c].name] = Fraction(1 if c in Wx else 0)
        val["beta_%s" % projs[c].name] = R["bc"][c]
    for v in model.vars:
        x = val[v.name]
        if x < Fraction(v.lb) - tol or (v.ub < 1e300 and x > Fraction(v.ub) + tol):
            return False
    for con in model.constrs:
        e = con.expr
        sacc = Fraction(e.const)
        for v, co in e.expr.items():
            sacc += Fraction(co) * val[v.name]
        if e.sense == "<":
            ok = sacc <= tol
        elif e.sense == ">":
            ok = sacc >= -tol
        else:
            ok = abs(sacc) <= tol
        if not ok:
            return False
    return True


def impl_relaxed(case):
    from pabutools.analysis.priceability import priceable, validate_price_system

    _install_capture()
    del _CAPTURED[:]
    pb.install_solver_guard()
    pb.solver_reset()
    costs, B, ballots = case["costs"], case["budget"], case["ballots"]
    m, n = len(costs), len(ballots)
    kind, exh = case["relax"], case["exh"]
    consts = relax_consts()
    rng = random.Random(case["pseed"])
    inst, projs = pb.make_instance(costs, B)
    prof = pb.make_approval_profile(inst, projs, ballots)
    out = {"relaxed": True}
    alloc = case["alloc"]
    if case["akind"] == "mes":
        from pabutools.election import Cost_Sat
        from pabutools.rules import method_of_equal_shares

        alloc = sorted(pb.ranks(method_of_equal_shares(inst, prof, sat_class=Cost_Sat)))
    out["alloc"] = alloc
    lbflag = (alloc is None) and (not exh)
    subs = [alloc] if alloc is not None else [list(s) for k in range(m + 1) for s in itertools.combinations(range(m), k)]

    def admissible(W):
        return tcost(costs, W) <= B and (not exh or is_exh(costs, B, W))

    # ---- the optimum of the model's MIP: one exact LP per candidate allocation ----
    obj = LP.objective_coefs(kind, m)
    best = None
    rows_of = {}
    for W in subs:
        if not admissible(W):
            continue
        rows = LP.rows_py(costs, B, ballots, W, True, lbflag, kind, True, consts)
        rows_of[tuple(W)] = rows
        res = LP.solve(rows, ballots, W, objective=obj)
        if res[0] == "sat" and (best is None or res[2] < best[2]):
            best = (W, res[1], res[2])
    out["lp_needed"] = any(admissible(W) for W in subs)
    if best is not None:
        W, point, v = best
        b, P = _point_bP(point, n, m)
        R = _R_of_point(kind, m, point)
        t = v - OBJ_DELTA
        yss = []
        for W1 in subs:
            if not admissible(W1):
                yss.append([])
                continue
            rows = rows_of[tuple(W1)] + [LP.objective_row(kind, m, t)]
            r2 = LP.solve(rows, ballots, W1)
            if r2[0] != "unsat":
                raise RuntimeError("internal: objective below the LP minimum is feasible")
            yss.append(r2[1])
        out["opt"] = {"W": W, "b": pb.qs(b), "P": [[pb.qs(x) for x in row] for row in P], "R": _R_json(R),
                      "t": pb.qs(t), "ys": yss, "v": pb.qs(v)}
        out["exist"] = {"kind": "witness", "W": W, "b": pb.qs(b), "P": [[pb.qs(x) for x in row] for row in P],
                        "R": _R_json(R)}
        opt = (W, b, P, R)
    else:
        out["opt"] = None
        opt = None
        # is there a relaxed price system at all (any parameters)?  the stability rows are left out
        found = None
        yss = []
        for W in subs:
            if not admissible(W):
                yss.append([])
                continue
            rows = LP.rows_py(costs, B, ballots, W, True, lbflag, kind, False, consts)
            keep = [r for r in rows if r[2][0] != "s5"]
            res = LP.solve(keep, ballots, W)
            if res[0] == "sat":
                b, P = _point_bP(res[1], n, m)
                found = (W, b, P, _big_beta_witness(kind, costs, B, ballots, W, b, P, consts))
                break
            ys_full, it = [], iter(res[1])
            for r in rows:
                ys_full.append(0 if r[2][0] == "s5" else next(it))
            yss.append(ys_full)
        if found is not None:
            W, b, P, R = found
            out["exist"] = {"kind": "witness", "W": W, "b": pb.qs(b), "P": [[pb.qs(x) for x in row] for row in P],
                            "R": _R_json(R)}
        else:
            out["exist"] = {"kind": "farkas", "ys": yss}

    # ---- validator queries with exactly set parameters ----
    out["rvals"] = []
    if opt is not None:
        W, b, P, R = opt
        vq = [("opt_exact", W, b, P, R, exh)]
        big = [Fraction(1, 10), Fraction(1, 8), Fraction(1, 4), Fraction(1), Fraction(101, 1000)]
        small = [Fraction(1, 200), Fraction(3, 200), Fraction(1, 100), Fraction(1, 1000), Fraction(99, 10000)]

        def shifted(R, d):
            R2 = {"kind": R["kind"], "g": R["g"], "bc": list(R["bc"])}
            if kind in ("mul", "add", "off"):
                R2["g"] = R["g"] + d
            else:
                unsel = [c for c in range(m) if c not in W]
                if unsel:
                    c = rng.choice(unsel)
                    R2["bc"][c] = R["bc"][c] + d
            return R2
        d = rng.choice(big if rng.random() < 0.7 else small)
        vq.append(("beta-", W, b, P, shifted(R, -d), exh))
        vq.append(("beta+", W, b, P, shifted(R, d), exh))
        for tag, W2, b2, P2, st2, ex2 in (_perturbations(rng, costs, B, ballots, W, b, P, True, exh, 2)
                                          + _structured(rng, costs, B, ballots, W, b, P, True, exh, 2)):
            if st2:
                vq.append((tag, W2, b2, P2, R, ex2))
        for tag, W2, b2, P2, R2, ex2 in vq:
            okv = _validate_relaxed(inst, prof, projs, kind, W2, b2, P2, R2, ex2)
            out["rvals"].append({"tag": tag, "W": list(W2), "exh": ex2, "b": pb.qs(b2),
                                 "P": [[pb.qs(x) for x in row] for row in P2], "R": _R_json(R2), "impl": okv})

    # ---- the call ----
    rel = _relax_class(kind)(inst, prof)
    res = priceable(inst, prof, None if alloc is None else [projs[c] for c in alloc], stable=True,
                    exhaustive=exh, relaxation=rel)
    ok = res.validate()
    out["status"] = str(res.status).split(".")[-1]
    out["ok"] = bool(ok)
    if ok is None:
        out["solver_fault"] = "NO_SOLUTION_FOUND"
    if ok:
        Wr = sorted(pb.ranks(res.allocation))
        pf = res.payment_functions
        rb = res.relaxation_beta
        if kind in ("mul", "add"):
            Rr = {"kind": kind, "g": Fraction(rb), "bc": [Fraction(0)] * m}
            robj = Fraction(rb)
        else:
            Rr = {"kind": kind, "g": Fraction(rb.get("beta_global", 0)),
                  "bc": [Fraction(rb["beta"].get(projs[c], 0)) for c in range(m)]}
            robj = Fraction(rb["beta_global"]) if kind == "off" else Fraction(rb["sum"])
        valid = bool(validate_price_system(inst, prof, res.allocation, res.voter_budget, pf, stable=True,
                                           exhaustive=exh, relaxation=rel))
        out["wit"] = {"W": Wr, "b": _exact(res.voter_budget),
                      "P": [[_exact(pf[i][projs[c]]) for c in range(m)] for i in range(n)],
                      "R": _R_json(Rr), "obj": pb.qs(robj), "valid": valid,
                      "noise": False, "edge": False}
        out["wit"]["noise"], out["wit"]["edge"] = map(bool, _boundary_noise(
            inst, prof, res.allocation, res.voter_budget, pf, True, rel))

    # ---- CBC against itself: the same model object re-solved without preprocessing.  A smaller optimum (or
    # a solution where INFEASIBLE was reported) means the first answer was invalid for the model it was given
    # (observed: CBC's preprocessing loses the optimum of some big-M models) -> solver fault, discarded ----
    if _CAPTURED and not out.get("solver_fault"):
        import mip

        model = _CAPTURED[-1]
        suspicious = False
        if ok and best is not None and out["status"] == "OPTIMAL":
            suspicious = Fraction(out["wit"]["obj"].split("/")[0]) / Fraction(out["wit"]["obj"].split("/")[1]) \
                > best[2] + Fraction(1, 10 ** 6)
        elif not ok and out["exist"]["kind"] == "witness":
            suspicious = True
        if suspicious:
            try:
                obj1 = model.objective_value if ok else None
                model.preprocess = 0
                a0, k0 = model._verif_calls[-1] if model._verif_calls else ((), {"max_seconds": 600})
                st2 = model.optimize(*a0, **k0)       # the library's own call, preprocessing off
                if st2 == mip.OptimizationStatus.OPTIMAL:
                    if not ok:
                        out["solver_fault"] = "CBC: INFEASIBLE with preprocessing, solvable without (same model)"
                    elif model.objective_value < obj1 - 1e-6:
                        out["solver_fault"] = ("CBC: optimum %r with preprocessing, %r without (same model)"
                                               % (obj1, model.objective_value))
                if not out.get("solver_fault") and alloc is None:
                    # a RESTRICTION of the model (x fixed to the allocation of the certified optimum / witness)
                    # cannot have a smaller optimum, nor be solvable when the model is infeasible
                    Wfix = best[0] if best is not None else out["exist"]["W"]
                    for c in range(m):
                        model += model.var_by_name("x_%s" % projs[c].name) == (1 if c in Wfix else 0)
                    st3 = model.optimize(*a0, **k0)
                    if st3 == mip.OptimizationStatus.OPTIMAL:
                        if not ok:
                            out["solver_fault"] = "CBC: INFEASIBLE, but solvable after fixing x (same model)"
                        elif model.objective_value < obj1 - 1e-6:
                            out["solver_fault"] = ("CBC: optimum %r reported, %r after fixing x to %r (same model)"
                                                   % (obj1, model.objective_value, Wfix))
            except Exception as e:  # pragma: no cover
                out["resolve_error"] = repr(e)

    # ---- the rows of the model that was built ----
    out["rrows"] = []
    if _CAPTURED and opt is not None:
        model = _CAPTURED[-1]
        W, b, P, R = opt
        M = consts["inf_factor"] * B

        def mod(R, **kw):
            R2 = {"kind": R["kind"], "g": R["g"], "bc": list(R["bc"])}
            R2.update(kw)
            return R2
        cands = [(W, b, P, R), (W, b, P, mod(R, g=R["g"] + 1)), (W, b, P, mod(R, g=R["g"] - Fraction(1, 2))),
                 (W, b + rng.choice([1, M, Fraction(M, max(1, n))]), P, R)]
        c = rng.randrange(m)
        bc2 = list(R["bc"])
        bc2[c] += rng.choice([Fraction(1, 2), -Fraction(1, 2), 1, M + 1, -(M + 1)])
        cands.append((W, b, P, mod(R, bc=bc2)))
        cands.append((sorted(set(W) ^ {rng.randrange(m)}), b, P, R))
        for Wx, bx, Px, Rx in cands:
            out["rrows"].append({"W": list(Wx), "b": pb.qs(bx), "P": [[pb.qs(x) for x in row] for row in Px],
                                 "R": _R_json(Rx), "ok": _rows_hold_relaxed(model, projs, n, Wx, bx, Px, Rx)})
    st = pb.solver_state()
    out["solver_calls"] = st["calls"]
    if st["faults"]:
        out["solver_fault"] = st["last_fault"]
    return out


def impl(case):
    if case.get("relax"):
        return impl_relaxed(case)
    return impl_plain(case)


def impl_plain(case):
    from pabutools.analysis.priceability import priceable

    _install_capture()
    del _CAPTURED[:]

    pb.install_solver_guard()
    pb.solver_reset()
    costs, B, ballots = case["costs"], case["budget"], case["ballots"]
    m, n = len(costs), len(ballots)
    stable, exh = case["stable"], case["exh"]
    rng = random.Random(case["pseed"])
    inst, projs = pb.make_instance(costs, B)
    prof = pb.make_approval_profile(inst, projs, ballots)
    out = {"vals": []}
    alloc = case["alloc"]
    mes_ps = None
    if case["akind"] == "mes":
        from pabutools.election import Cost_Sat
        from pabutools.rules import method_of_equal_shares

        res = method_of_equal_shares(inst, prof, sat_class=Cost_Sat, analytics=True)
        alloc = sorted(pb.ranks(res))
        P = [[Fraction(0)] * m for _ in range(n)]
        its = res.details.iterations
        for it in its:
            if it.selected_project is None:
                continue
            c = pb.rank(it.selected_project)
            for i in range(n):
                P[i][c] += pb.F(it.voters_budget[i]) - pb.F(it.voters_budget_after_selection[i])
        b0 = pb.F(its[0].voters_budget[0]) if its and its[0].voters_budget else Fraction(B, n)
        mes_ps = (b0, P)
    out["alloc"] = alloc

    # ---- the exact decision (untrusted LP, certificates checked in Coq) ----
    lbflag = (alloc is None) and (not exh)
    wit = None
    if alloc is not None:
        r = decide_W(costs, B, ballots, alloc, stable, exh, False)
        if r[0] == "witness":
            wit = (alloc, r[1], r[2])
            out["cert"] = {"kind": "witness", "W": alloc, "b": pb.qs(r[1]), "P": [[pb.qs(x) for x in row] for row in r[2]]}
        else:
            out["cert"] = {"kind": "farkas", "ys": [r[1]]}
        out["lp_needed"] = tcost(costs, alloc) <= B and (not exh or is_exh(costs, B, alloc))
    else:
        yss = []
        subs = [list(s) for k in range(m + 1) for s in itertools.combinations(range(m), k)]
        for W in subs:
            r = decide_W(costs, B, ballots, W, stable, exh, lbflag)
            if r[0] == "witness":
                wit = (W, r[1], r[2])
                break
            yss.append(r[1])
        if wit is not None:
            out["cert"] = {"kind": "witness", "W": wit[0], "b": pb.qs(wit[1]), "P": [[pb.qs(x) for x in row] for row in wit[2]]}
        else:
            out["cert"] = {"kind": "farkas", "ys": yss}
        out["lp_needed"] = True

    # ---- validator queries ----
    vq = []
    if wit is not None:
        W, b, P = wit
        vq.append(("lp_exact", W, b, P, stable, exh))
        vq += _perturbations(rng, costs, B, ballots, W, b, P, stable, exh, 4)
        vq += _structured(rng, costs, B, ballots, W, b, P, stable, exh, 3)
    if mes_ps is not None:
        b0, P0 = mes_ps
        vq.append(("mes_exact", alloc, b0, P0, False, False))
        vq.append(("mes_exh", alloc, b0, P0, False, True))
        vq += _perturbations(rng, costs, B, ballots, alloc, b0, P0, False, False, 2)
        vq += _structured(rng, costs, B, ballots, alloc, b0, P0, False, False, 2)
    Wq = alloc if alloc is not None else sorted(rng.sample(range(m), rng.randrange(0, m + 1)))
    bq, Pq = _equal_split(costs, ballots, Wq)
    vq.append(("split", Wq, bq, Pq, stable, exh))
    vq += _perturbations(rng, costs, B, ballots, Wq, bq, Pq, stable, exh, 1)
    vq += _structured(rng, costs, B, ballots, Wq, bq, Pq, stable, exh, 2)
    for ev in case.get("extra_vals", []):      # explicit queries of corpus cases
        vq.append(("corpus", ev["W"], pb.F(ev["b"]), [[pb.F(x) for x in row] for row in ev["P"]],
                   bool(ev["stable"]), bool(ev["exh"])))
    for tag, W, b, P, st, ex in vq:
        ok = _validate(inst, prof, projs, W, b, P, st, ex)
        out["vals"].append({"tag": tag, "W": list(W), "b": pb.qs(b), "P": [[pb.qs(x) for x in row] for row in P],
                            "stable": st, "exh": ex, "impl": ok})

    # ---- the call ----
    res = priceable(inst, prof, None if alloc is None else [projs[c] for c in alloc], stable=stable, exhaustive=exh)
    ok = res.validate()
    out["status"] = str(res.status).split(".")[-1]
    out["ok"] = bool(ok)
    if ok is None:
        out["solver_fault"] = "NO_SOLUTION_FOUND"
    if ok:
        Wr = sorted(pb.ranks(res.allocation))
        pf = res.payment_functions
        from pabutools.analysis.priceability import validate_price_system
        valid = bool(validate_price_system(inst, prof, res.allocation, res.voter_budget, pf, stable=stable, exhaustive=exh))
        out["wit"] = {"W": Wr, "b": _exact(res.voter_budget),
                      "P": [[_exact(pf[i][projs[c]]) for c in range(m)] for i in range(n)], "valid": valid,
                      "noise": False, "edge": False}
        out["wit"]["noise"], out["wit"]["edge"] = map(bool, _boundary_noise(
            inst, prof, res.allocation, res.voter_budget, pf, stable))
    # ---- the rows of the model that was built, on exact assignments ----
    out["rows"] = []
    if _CAPTURED:
        model = _CAPTURED[-1]
        M = 10 * max([B] + list(costs))
        cands = []
        if wit is not None:
            W, b, P = wit
            cands.append((W, b, P))
            cands.append((W, b + Fraction(M, max(1, n)) + rng.choice([0, 1, -1]), P))
            cands.append((W, b + M * rng.choice([1, 2]), P))
            W2 = sorted(set(W) ^ {rng.randrange(m)})
            cands.append((W2, b, P))
        bq2, Pq2 = _equal_split(costs, ballots, Wq)
        cands.append((Wq, bq2, Pq2))
        cands.append((Wq, bq2 + rng.choice([Fraction(1, 2), 1, M - 1, M, M + 1, Fraction(M, 2)]), Pq2))
        for Wx, b, P in cands:
            out["rows"].append({"W": list(Wx), "b": pb.qs(b), "P": [[pb.qs(x) for x in row] for row in P],
                                "ok": _rows_hold(model, projs, n, Wx, b, P, stable)})
    st = pb.solver_state()
    out["solver_calls"] = st["calls"]
    if st["faults"]:
        out["solver_fault"] = st["last_fault"]
    return out


# ----------------------------------------------------------------------------------------------
# Gallina rendering
# ----------------------------------------------------------------------------------------------
def _qtab(P):
    return lst([core.qlist(row) for row in P])


_KIND_COQ = {"mul": "KMul", "add": "KAdd", "vec": "KVec", "vecpos": "KVecPos", "off": "KOff"}


def _R_coq(R):
    k = R["kind"]
    if k == "mul":
        return "(RMul %s)" % q(R["g"])
    if k == "add":
        return "(RAdd %s)" % q(R["g"])
    if k == "vec":
        return "(RVec %s)" % core.qlist(R["bc"])
    if k == "vecpos":
        return "(RVecPos %s)" % core.qlist(R["bc"])
    return "(ROff %s %s)" % (q(R["g"]), core.qlist(R["bc"]))


def coq_case_relaxed(case, o):
    ex = o["exist"]
    if ex["kind"] == "witness":
        exist = "(RWitness %s %s %s %s)" % (natl(ex["W"]), q(ex["b"]), _qtab(ex["P"]), _R_coq(ex["R"]))
    else:
        exist = "(RFarkas %s)" % lst([core.qlist(ys) for ys in ex["ys"]])
    op = o["opt"]
    optc = "None" if not op else "(Some (%s, %s, %s, %s, %s, %s))" % (
        natl(op["W"]), q(op["b"]), _qtab(op["P"]), _R_coq(op["R"]), q(op["t"]),
        lst([core.qlist(ys) for ys in op["ys"]]))
    w = o.get("wit")
    wit = "None" if not w else "(Some (%s, %s, %s, %s, %s, %s, %s, %s))" % (
        natl(w["W"]), q(w["b"]), _qtab(w["P"]), _R_coq(w["R"]), q(w["obj"]), boolc(w["valid"]), boolc(w["noise"]), boolc(w["edge"]))
    rvals = lst([pair(natl(v["W"]), boolc(v["exh"]), q(v["b"]), _qtab(v["P"]), _R_coq(v["R"]), boolc(v["impl"]))
                 for v in o["rvals"]])
    rrows = lst([pair(natl(r["W"]), q(r["b"]), _qtab(r["P"]), _R_coq(r["R"]), boolc(r["ok"])) for r in o["rrows"]])
    rq = "(Some (mkRQ %s %s %s %s %s %s %s %s %s))" % (
        _KIND_COQ[case["relax"]], boolc(case["exh"]), opt(o["alloc"], natl), boolc(o["ok"]), exist, optc, wit,
        rvals, rrows)
    return "(mkCase %s %s %s [] None %s)" % (core.qlist(case["costs"]), q(case["budget"]),
                                             lst([natl(b) for b in case["ballots"]]), rq)


def coq_case(case, o):
    if case.get("relax"):
        return coq_case_relaxed(case, o)
    vals = lst(["(mkVQ %s %s %s %s %s %s)" % (natl(v["W"]), boolc(v["stable"]), boolc(v["exh"]), q(v["b"]),
                                               _qtab(v["P"]), boolc(v["impl"])) for v in o["vals"]])
    ce = o["cert"]
    if ce["kind"] == "witness":
        cert = "(CWitness %s %s %s)" % (natl(ce["W"]), q(ce["b"]), _qtab(ce["P"]))
    else:
        cert = "(CFarkas %s)" % lst([core.qlist(ys) for ys in ce["ys"]])
    w = o.get("wit")
    wit = "None" if not w else "(Some (%s, %s, %s, %s, %s, %s))" % (natl(w["W"]), q(w["b"]), _qtab(w["P"]),
                                                                      boolc(w["valid"]), boolc(w["noise"]),
                                                                      boolc(w["edge"]))
    alloc = o["alloc"]
    rows = lst([pair(natl(r["W"]), q(r["b"]), _qtab(r["P"]), boolc(r["ok"])) for r in o.get("rows", [])])
    qy = "(Some (mkPQ %s %s %s %s %s %s %s %s))" % (
        boolc(case["stable"]), boolc(case["exh"]), opt(alloc, natl), boolc(case["akind"] == "mes"),
        boolc(o["ok"]), cert, wit, rows)
    return "(mkCase %s %s %s %s %s None)" % (core.qlist(case["costs"]), q(case["budget"]),
                                             lst([natl(b) for b in case["ballots"]]), vals, qy)


# ----------------------------------------------------------------------------------------------
# evidence
# ----------------------------------------------------------------------------------------------
def _usable(o):
    return isinstance(o, dict) and ("cert" in o or "exist" in o) and not o.get("discard")


def nontrivial(case, o):
    if not _usable(o) or not o.get("lp_needed"):
        return None
    return [case["costs"], case["budget"], case["ballots"], o["alloc"], case["stable"], case["exh"],
            case.get("relax")]


def stats(cases, obs):
    d = {"akind": {}, "stable": 0, "exhaustive": 0, "priceable_yes": 0, "priceable_no_by_farkas": 0,
         "rejected_on_cost_or_exhaustiveness": 0, "returned_witnesses": 0, "boundary_cost_gt_10B": 0,
         "boundary_priceable_yes": 0, "validator_queries": 0, "validator_accepts": 0, "validator_tags": {},
         "voters_hist": {}, "projects_hist": {}, "with_empty_ballot": 0, "solver_calls": 0,
         "solver_fault_or_crash": 0, "impl_status": {},
         "mip_row_evaluations": 0, "mip_row_evaluations_satisfied": 0,
         "boundary_noise": 0, "boundary_noise_and_library_validator_rejects": 0,
         "relaxed": {"calls": 0, "by_class": {}, "given": 0, "searched": 0, "exhaustive": 0, "success": 0,
                     "no_relaxed_price_system": 0, "rejected_on_cost_or_exhaustiveness": 0,
                     "objective_negative": 0, "objective_zero": 0, "objective_positive": 0,
                     "objective_at_lower_bound": 0, "validator_queries": 0, "validator_accepts": 0,
                     "validator_tags": {}, "mip_row_evaluations": 0, "mip_row_evaluations_satisfied": 0,
                     "farkas_lower_bound_certificates": 0}}
    for c, o in zip(cases, obs):
        if o is None:
            continue
        if not _usable(o):
            d["solver_fault_or_crash"] += 1
            continue
        if (o.get("wit") or {}).get("noise"):
            d["boundary_noise"] += 1
            d["boundary_noise_and_library_validator_rejects"] += not o["wit"]["valid"]
        if c.get("relax"):
            r = d["relaxed"]
            r["calls"] += 1
            r["by_class"][c["relax"]] = r["by_class"].get(c["relax"], 0) + 1
            r["given" if o["alloc"] is not None else "searched"] += 1
            r["exhaustive"] += bool(c["exh"])
            r["success"] += bool(o.get("ok"))
            if o["exist"]["kind"] == "farkas":
                r["no_relaxed_price_system" if o.get("lp_needed") else "rejected_on_cost_or_exhaustiveness"] += 1
            if o.get("opt"):
                v = pb.F(o["opt"]["v"])
                neutral = 1 if c["relax"] == "mul" else 0
                r["objective_negative" if v < neutral else ("objective_zero" if v == neutral else "objective_positive")] += 1
                if c["relax"] in ("add", "off") and v == -relax_consts()["inf_factor"] * c["budget"]:
                    r["objective_at_lower_bound"] += 1
                r["farkas_lower_bound_certificates"] += sum(1 for ys in o["opt"]["ys"] if ys)
            r["validator_queries"] += len(o["rvals"])
            r["validator_accepts"] += sum(1 for v in o["rvals"] if v["impl"])
            for v in o["rvals"]:
                k = v["tag"] + ("+" if v["impl"] else "-")
                r["validator_tags"][k] = r["validator_tags"].get(k, 0) + 1
            r["mip_row_evaluations"] += len(o["rrows"])
            r["mip_row_evaluations_satisfied"] += sum(1 for x in o["rrows"] if x["ok"])
            d["solver_calls"] += o.get("solver_calls", 0)
            d["impl_status"]["relaxed:" + o.get("status", "?")] = d["impl_status"].get("relaxed:" + o.get("status", "?"), 0) + 1
            continue
        d["akind"][c["akind"]] = d["akind"].get(c["akind"], 0) + 1
        d["stable"] += bool(c["stable"])
        d["exhaustive"] += bool(c["exh"])
        d["boundary_cost_gt_10B"] += bool(c.get("boundary"))
        if o["cert"]["kind"] == "witness":
            d["priceable_yes"] += 1
            d["boundary_priceable_yes"] += bool(c.get("boundary"))
        elif o.get("lp_needed"):
            d["priceable_no_by_farkas"] += 1
        else:
            d["rejected_on_cost_or_exhaustiveness"] += 1
        d["returned_witnesses"] += bool(o.get("wit"))
        d["validator_queries"] += len(o["vals"])
        d["validator_accepts"] += sum(1 for v in o["vals"] if v["impl"])
        for v in o["vals"]:
            k = v["tag"] + ("+" if v["impl"] else "-")
            d["validator_tags"][k] = d["validator_tags"].get(k, 0) + 1
        d["voters_hist"][str(len(c["ballots"]))] = d["voters_hist"].get(str(len(c["ballots"])), 0) + 1
        d["projects_hist"][str(len(c["costs"]))] = d["projects_hist"].get(str(len(c["costs"])), 0) + 1
        d["with_empty_ballot"] += any(len(b) == 0 for b in c["ballots"])
        d["solver_calls"] += o.get("solver_calls", 0)
        d["mip_row_evaluations"] += len(o.get("rows", []))
        d["mip_row_evaluations_satisfied"] += sum(1 for r in o.get("rows", []) if r["ok"])
        d["impl_status"][o.get("status", "?")] = d["impl_status"].get(o.get("status", "?"), 0) + 1
    return d


def shrink(case):
    n, m = len(case["ballots"]), len(case["costs"])
    for v in range(n):
        if n > 1:
            c = dict(case)
            c["ballots"] = case["ballots"][:v] + case["ballots"][v + 1:]
            yield c
    for j in range(m):
        if m > 1:
            ren = lambda W: [x - (x > j) for x in W if x != j]
            c = dict(case)
            c["costs"] = case["costs"][:j] + case["costs"][j + 1:]
            c["ballots"] = [ren(b) for b in case["ballots"]]
            if case["alloc"] is not None:
                c["alloc"] = ren(case["alloc"])
            yield c
    for j in range(m):
        if case["costs"][j] > 1:
            c = dict(case)
            c["costs"] = list(case["costs"])
            c["costs"][j] -= 1
            yield c
    if case["budget"] > 1:
        c = dict(case)
        c["budget"] = case["budget"] - 1
        yield c
    for v in range(n):
        for p in case["ballots"][v]:
            c = dict(case)
            c["ballots"] = [list(b) for b in case["ballots"]]
            c["ballots"][v].remove(p)
            yield c
