"""C18 -- election and outcome statistics equal their textbook definitions."""
from __future__ import annotations

import itertools
from fractions import Fraction

from .. import core
from ..core import q, lst, natl, boolc, opt, pair
from .. import pb

ID = "C18"
ORACLE = "Oracle.C18"
PROPS = "Props/C18.v"   # Props/C18gen.v is built by make but not part of the check: see DESIGN.md §8.4
LEVEL = "proof"
SHARD = 40

# function ids shared with Oracle/C18.v
EXACT = {1: "sum_project_cost", 2: "funding_scarcity", 3: "avg_project_cost", 6: "avg_ballot_length",
         8: "avg_ballot_cost", 10: "avg_approval_score", 12: "avg_total_score"}
FLOAT = {4: "median_project_cost", 5: "std_dev_project_cost", 7: "median_ballot_length", 9: "median_ballot_cost",
         11: "median_approval_score", 13: "median_total_score"}
VEC = {14: "approval_score (per project)", 15: "total_score (per project)", 16: "votes_count_by_project",
       17: "voter_flow_matrix"}
SATF = {20: "avg_satisfaction", 21: "percent_non_empty_handed", 22: "percent_positive_satisfaction",
        23: "gini_coefficient_of_satisfaction", 24: "gini_coefficient_of_satisfaction(invert=True)",
        25: "satisfaction_histogram", 27: "category_proportionality", 30: "utils.mean_generator",
        31: "utils.gini_coefficient"}
CODES = {}
for _d in (EXACT, FLOAT, VEC, SATF):
    for _k, _n in _d.items():
        CODES[100 + _k] = ("oracle", "%s differs from its definition computed on the list of voters" % _n)
        CODES[200 + _k] = ("model", "%s differs from the Gallina model of the code" % _n)
CODES[126] = ("oracle", "per-ballot satisfaction (Cardinality_Sat/Cost_Sat/CC_Sat) differs from its definition, or the "
                        "values on the profile object are not those of the voters")
CODES[140] = ("oracle", "the ballots of the profile object, repeated by multiplicity, are not the voters' ballots")
CODES[core.RAISED] = ("oracle", "a statistics function raised on an input inside its domain")

RULE = ("elections with 0..6 projects (tie-rich cost pools: zeros, equal costs, halves/thirds), 0..8 voters with frequent "
        "duplicate ballots and empty ballots, all four ballot types, Profile and MultiProfile; every public statistics "
        "function of pabutools.analysis applicable to the ballot type; feasible allocations as outcomes (all of them in "
        "the thorough tier when <=5 projects, the empty one, the fullest and sampled ones otherwise); histograms with bin "
        "counts 2..25 and max_satisfaction chosen so that voters sit exactly on bin edges; direct calls of mean_generator "
        "(negative values, multiplicity 0, plain numbers) and gini_coefficient (zeros, negatives).  non-trivial = distinct "
        "election with >=2 distinct ballots and a non-constant satisfaction vector")
ASSUMPTIONS = [
    "hand-written Gallina model of the analysis module tied to the code by differential execution only",
    "gmpy2 mpq arithmetic = exact Q",
    "float-valued results (np.median, np.std, np.exp, histogram shares, Cost_Sqrt_Sat based statistics) are compared with "
    "the exact value within 1e-9 relative error: a test, not a proof (sqrt inverted by squaring, exp enclosed by 25 terms "
    "of its alternating series in Q)",
    "per-ballot satisfaction of measures other than Cardinality_Sat/Cost_Sat/CC_Sat is taken from the library (property C10)",
]
TRUSTED = ["Model/Analysis.v mirrors pabutools/analysis/{profileproperties,instanceproperties,votersatisfaction,category}.py "
           "and pabutools/utils.py (modelled, not verified)",
           "the enclosure of exp(-t) by consecutive partial sums of its series for 0<=t<=1 (Oracle/C18.v) is not proved in Coq"]
EXPLANATION = ("Theorems (unbounded): the incremental mean with multiplicities equals sum(v*mul)/sum(mul); the cumulative-sum "
               "Gini equals sum_i sum_j |x_i-x_j| / (2 n sum x) (0 for the zero vector); np.median's sorted-middle equals the "
               "order-statistic median; the ceil-based bin index is the unique bin whose half-open interval contains the "
               "satisfaction, the bins add up to 1; every aggregate on (ballot, multiplicity) classes equals the aggregate "
               "on the expanded list of voters; votes_count/voter_flow equal the per-voter counts when no multiplicity "
               "exceeds 1 and are refuted otherwise (recorded finding).  Tie: every returned value is compared in Coq with "
               "the definition evaluated on the list of voters (exactly for rationals, within 1e-9 for floats: that part is "
               "a test) and with the model evaluated on the profile object's (ballot, multiplicity) pairs.")

POOLS = [
    [0, 1, 1, 2, 2, 3],
    [1, 2, 3, 4, 5],
    ["1/2", "1/3", "3/4", "2/3", "1/7", 1],
    [2, 2, 2, 2],
    [0, 0, 1],
    ["5/2", "7/3", 5, 10, "1/10"],
    [1, 4, 9, 16],
    # beyond 2**53: any float intermediate in a function that promises exact arithmetic becomes visible
    [10**17 + 1, 10**17 + 3, 3 * 10**16 + 7, 1, "10000000000000001/3"],
]
SAT_BY_TYPE = {
    "approval": ["Cardinality_Sat", "Cost_Sat", "CC_Sat", "Relative_Cardinality_Sat", "Effort_Sat", "Cost_Sqrt_Sat",
                 "Relative_Cost_Approx_Normaliser_Sat"],
    "cardinal": ["Additive_Cardinal_Sat", "CC_Sat"],
    "cumulative": ["Additive_Cardinal_Sat", "CC_Sat"],
    "ordinal": ["Additive_Borda_Sat"],
}
INSTANCE_DEPENDENT = ["Relative_Cardinality_Sat", "Relative_Cost_Approx_Normaliser_Sat"]
MEAS_ID = {"Cardinality_Sat": 1, "Cost_Sat": 2, "CC_Sat": 3}
FLOAT_MEAS = {"Cost_Sqrt_Sat"}


def budget(tier):
    global SHARD
    if tier == "quick":
        return NSWEEP + 330
    SHARD = 10          # thorough cases carry every feasible allocation x every measure: ~10x the text
    return NSWEEP + 3500


def _feasible_allocs(costs, b):
    n = len(costs)
    out = []
    for r in range(n + 1):
        for s in itertools.combinations(range(n), r):
            if sum((costs[j] for j in s), Fraction(0)) <= b:
                out.append(list(s))
    return out


NSWEEP = 72   # 3 systematic histogram cases for every bin count 2..25, in every run


def _key(ranks):
    return ",".join(str(r) for r in sorted(ranks))


def _dyadic(x):
    d = pb.F(x).denominator
    return d & (d - 1) == 0 and d <= 1 << 20


def gen_sweep(rng, i):
    """Histogram sweep: bin count k = 2 + i % 24 with a voter on EVERY bin edge j*max/(k-1), j = 0..k-1, some voters
    between edges and one above max; max_satisfaction passed as int / mpq / Fraction / float.
    variant 0: prescribed satisfactions (Table_Sat, a SatisfactionMeasure defined by the harness), max = int 1;
    variant 1: the same with another max (integral or fractional) and Fraction-typed satisfactions;
    variant 2: Relative_Cardinality_Sat on 2(k-1) unit-cost projects (satisfaction j/(k-1) exactly), max = int 1."""
    k = 2 + i % 24
    variant = i // 24
    multi = rng.random() < 0.5
    base = {"btype": "approval", "multi": multi, "ask": [], "cats": None, "meanq": [], "giniq": [], "sweep": variant}
    if variant == 2:
        h = k - 1
        n = 2 * h
        ballots = [list(range(j)) + list(range(h, h + h - j)) for j in range(k)]
        ballots.append(list(range(n)))
        ballots += [list(rng.choice(ballots)) for _ in range(3)]
        rng.shuffle(ballots)
        hist = [{"k": k, "max": ["lit", "1/1"], "mtype": "auto", "omit_k": k == 21},
                {"k": k, "max": ["lit", "1/1"], "mtype": rng.choice(["mpq", "fraction", "float"])}]
        base.update({"costs": ["1/1"] * n, "budget": pb.qs(n), "order": list(range(n)), "ballots": ballots,
                     "satq": [{"alloc": list(range(h)), "meas": "Relative_Cardinality_Sat", "hist": hist}]})
        return base
    M = Fraction(1) if variant == 0 else pb.F(rng.choice([2, 3, 7, "1/2", "5/3", "7/2", 10, "1/3"]))
    vals = [M * j / (k - 1) for j in range(k)]
    vals += [M * (2 * rng.randrange(0, k - 1) + 1) / (2 * (k - 1)) for _ in range(2)]
    vals.append(M + Fraction(1, 2))
    subsets = [[b for b in range(5) if (v >> b) & 1] for v in range(32)]
    rng.shuffle(subsets)
    table = {_key(subsets[v]): pb.qs(x) for v, x in enumerate(vals)}
    ballots = [subsets[v] for v in range(len(vals))]
    ballots += [list(rng.choice(ballots)) for _ in range(4)]
    rng.shuffle(ballots)
    mtypes = ["auto", "mpq", "fraction"] + (["float"] if _dyadic(M) else [])
    if variant == 1:
        mtypes = ["auto", rng.choice(mtypes[1:])]
    hist = [{"k": k, "max": ["lit", pb.qs(M)], "mtype": t, "omit_k": (k == 21 and t == "auto")} for t in mtypes]
    base.update({"costs": ["1/1"] * 5, "budget": "5/1", "order": list(range(5)), "ballots": ballots,
                 "table": {"type": "mpq" if variant == 0 else rng.choice(["mpq", "fraction"]), "vals": table},
                 "satq": [{"alloc": [0], "meas": "Table_Sat", "hist": hist}]})
    return base


def gen(rng, i, tier):
    if i < NSWEEP:
        return gen_sweep(rng, i)
    i -= NSWEEP
    btype = ["approval", "approval", "approval", "cardinal", "cumulative", "ordinal"][i % 6]
    n = rng.choice([0, 1, 2, 3, 3, 4, 4, 5, 5, 6])
    pool = rng.choice(POOLS)
    big = pool is POOLS[-1]
    want_cats = btype == "approval" and n > 0 and rng.random() < 0.5 and not big
    if want_cats:
        pool = [c for c in pool if pb.F(c) > 0]     # category shares divide by the cost of every ballot
    costs = [pb.F(rng.choice(pool)) for _ in range(n)]
    tot = sum(costs, Fraction(0))
    mode = rng.randrange(5)
    if mode == 0 or n == 0:
        b = Fraction(rng.choice([1, 2, 3]))
    elif mode == 1:
        b = tot
    elif mode == 2:
        b = tot / 2 + rng.choice([0, Fraction(1, 3)])
    elif mode == 3:
        b = sum(rng.sample(costs, rng.randrange(1, n + 1)), Fraction(0))
    else:
        b = Fraction(rng.randrange(1, 12), rng.choice([1, 2]))
    if b <= 0:
        b = Fraction(1)
    nv = rng.choice([0, 1, 2, 3, 4, 4, 5, 6, 7, 8]) if n else rng.choice([0, 2])
    if want_cats:
        nv = max(nv, 1)
    ballots = []

    def one_ballot():
        if btype == "approval":
            style = rng.randrange(6)
            if want_cats:
                return sorted(rng.sample(range(n), rng.randrange(1, n + 1)))
            if style == 0:
                return []
            if style == 1:
                return list(range(n))
            return sorted(rng.sample(range(n), rng.randrange(0, n + 1))) if n else []
        if btype in ("cardinal", "cumulative"):
            k = rng.randrange(0, n + 1) if n else 0
            ps = sorted(rng.sample(range(n), k)) if n else []
            # negative and mixed-sign scores: satisfactions below 0 (Gini raises by design, "positive" means > 0)
            sp = [0, 1, 1, 2, 3, "1/2", "5/3", -1, -2, "-1/2"] if btype == "cardinal" else [0, 1, 2, 3, 5, -1, -3]
            return {str(p): pb.qs(rng.choice(sp)) for p in ps}
        k = rng.randrange(0, n + 1) if n else 0
        return rng.sample(range(n), k) if n else []

    for _ in range(nv):
        if ballots and rng.random() < 0.4:
            prev = rng.choice(ballots)
            ballots.append(dict(prev) if isinstance(prev, dict) else list(prev))   # duplicate -> multiplicity >= 2
        else:
            ballots.append(one_ballot())
    multi = rng.random() < 0.5
    order = list(range(n))
    rng.shuffle(order)
    # history stream: the statistics are computed, the SAME profile object is changed in place, and they are computed
    # again with the same objects; "ballots" are the voters of the FINAL profile
    history = None
    if rng.random() < 0.35:
        initial = [dict(b) if isinstance(b, dict) else list(b) for b in ballots]
        cur, ops = list(initial), []
        for _ in range(rng.randrange(1, 4)):
            if multi:
                kind = rng.choice(["append", "inc", "setmul", "del"] if cur else ["append", "inc"])
                if kind == "append":
                    op = ["append", rng.choice(cur) if cur and rng.random() < 0.5 else one_ballot()]
                elif kind == "inc":
                    op = ["inc", rng.choice(cur) if cur and rng.random() < 0.7 else one_ballot(), rng.randrange(1, 3)]
                elif kind == "setmul":
                    op = ["setmul", rng.choice(cur), rng.randrange(1, 4)]
                else:
                    op = ["del", rng.choice(cur)]
            else:
                kind = rng.choice(["append", "extend", "insert", "delete", "pop", "replace"] if cur
                                  else ["append", "extend"])
                if kind == "append":
                    op = ["append", one_ballot()]
                elif kind == "extend":
                    op = ["extend", [one_ballot(), rng.choice(cur) if cur else one_ballot()]]
                elif kind == "insert":
                    op = ["insert", rng.randrange(0, len(cur) + 1), one_ballot()]
                elif kind in ("delete", "pop"):
                    op = [kind, rng.randrange(0, len(cur))]
                else:
                    op = ["replace", rng.randrange(0, len(cur)), one_ballot()]
            ops.append(op)
            cur = simulate(cur, [op], multi)
        history = {"initial": initial, "ops": ops}
        ballots = cur

    # outcomes
    feas = _feasible_allocs(costs, b) if n <= 6 else [[]]
    if tier == "thorough" and n <= 5:
        allocs = feas
    else:
        fullest = max(feas, key=lambda s: (len(s), s))
        allocs = [fullest] + rng.sample(feas, min(len(feas), 2))
        if rng.random() < 0.15:
            allocs.append([])
        seen = []
        for a in allocs:
            if a not in seen:
                seen.append(a)
        allocs = seen
    measures = SAT_BY_TYPE[btype]
    # how the profile object is tied to an instance: bound to the instance that is passed to the functions, built without
    # instance= (profile.instance is then an empty Instance() with budget 0), bound to another Instance object of equal
    # content, or bound to an Instance with other costs and another budget.  The definitions refer to the PASSED instance.
    bind = rng.choice(["same", "same", "unbound", "equal", "other", "other"])
    bind_budget = pb.qs(rng.choice([Fraction(0), b / 3, 2 * b + 1]))
    satq = []
    for a in allocs:
        ms = list(measures) if tier == "thorough" else rng.sample(measures, min(len(measures), 2))
        if btype == "approval" and bind in ("unbound", "other") and tier != "thorough":
            ms[0] = rng.choice(INSTANCE_DEPENDENT)      # measures that read instance.budget_limit
        for m in ms:
            hist = []
            # (no histogram on costs beyond 2**53: the code's own int*int/int is a float division there)
            for _ in range(0 if big else 2 if tier == "quick" else 4):
                k = rng.randrange(2, 26)
                hm = rng.randrange(5)
                if m in FLOAT_MEAS:
                    mx = ["lit", pb.qs(rng.choice([1, 2, 3, 5, "7/2"]))]
                elif hm <= 2:
                    mx = ["edge", rng.randrange(0, 64), rng.randrange(1, k)]   # voter index, edge number
                elif hm == 3:
                    mx = ["max"]
                else:
                    mx = ["lit", pb.qs(rng.choice([1, 2, 3, 4, "1/2", "7/3"]))]
                hist.append({"k": k, "max": mx, "mtype": rng.choice(["auto", "auto", "mpq", "fraction"])})
            satq.append({"alloc": a, "meas": m, "hist": hist})
    ask = ["instance", "profile", "votes_count", "voter_flow"]
    if multi and not (i % 12 == 0 and i < 480):
        # recorded finding on multiprofiles (multiplicities ignored): asked on a bounded number of them only
        ask = ["instance", "profile"]
    cats = None
    if want_cats:
        ncat = rng.choice([1, 2, 3])
        cats = {"ncat": ncat, "pcats": [sorted(rng.sample(range(ncat), rng.randrange(0, ncat + 1))) for _ in range(n)],
                "alloc": rng.choice(allocs)}
    meanq, giniq = [], []
    for _ in range(2):
        vals = [pb.qs(rng.choice([0, 1, 2, 3, -1, "1/2", "-7/3", "5/3", 10, 10**17 + 1, "1/3000000000000000007"]))
                for _ in range(rng.randrange(0, 6))]
        if rng.random() < 0.3:
            meanq.append([[v, None] for v in vals])            # plain numbers
        else:
            meanq.append([[v, rng.choice([0, 1, 1, 2, 3, 5])] for v in vals])
        gv = [pb.qs(rng.choice([0, 0, 1, 2, 3, "1/2", "5/3", 10, 10**17 + 1, "1/3000000000000000007"]))
              for _ in range(rng.randrange(0, 7))]
        if rng.random() < 0.25:
            gv = ["0/1"] * len(gv)
        if gv and rng.random() < 0.1:
            gv[rng.randrange(len(gv))] = "-1/2"
        giniq.append(gv)
    return {"btype": btype, "costs": [pb.qs(c) for c in costs], "budget": pb.qs(b), "order": order,
            "ballots": ballots, "multi": multi, "ask": ask, "satq": satq, "cats": cats,
            "meanq": meanq, "giniq": giniq, "big": big, "history": history, "bind": bind, "bind_budget": bind_budget,
            # numeric type of costs/budget and of the arguments of the direct helper calls: the library's own
            # (int when integral, else mpq) or fractions.Fraction
            "ctype": rng.choice(["auto", "auto", "fraction"]), "numtype": rng.choice(["auto", "fraction"])}


# ----------------------------------------------------------------------------------------------
def _canon_ballot(btype, b):
    """ballot object -> [[rank, score], ...] (approval: rank order, score 1; cardinal: rank order; ordinal: as ranked)"""
    if btype == "approval":
        return [[r, "1/1"] for r in sorted(pb.rank(p) for p in b)]
    if btype in ("cardinal", "cumulative"):
        return [[r, s] for r, s in sorted((pb.rank(p), core.qj(v)) for p, v in b.items())]
    return [[pb.rank(p), "%d/1" % k] for k, p in enumerate(b)]


def _canon_case_ballot(btype, b):
    if btype == "approval":
        return [[r, "1/1"] for r in sorted(b)]
    if btype in ("cardinal", "cumulative"):
        return [[int(r), pb.qs(s)] for r, s in sorted((int(k), v) for k, v in b.items())]
    return [[r, "%d/1" % k] for k, r in enumerate(b)]


def _F(x):
    return pb.F(core.qj(x))


def _same(a, b):
    return _keyb(a) == _keyb(b)


def simulate(ballots, ops, multi):
    """the voters after the in-place operations (list semantics for a Profile, multiset semantics for a MultiProfile)"""
    cur = [dict(b) if isinstance(b, dict) else list(b) for b in ballots]
    for op in ops:
        if op[0] == "append":
            cur.append(op[1])
        elif op[0] == "extend":
            cur.extend(op[1])
        elif op[0] == "insert":
            cur.insert(op[1], op[2])
        elif op[0] in ("delete", "pop"):
            del cur[op[1]]
        elif op[0] == "replace":
            cur[op[1]] = op[2]
        elif op[0] == "setmul":          # multiprofile[ballot] = m  (m >= 1)
            cur = [b for b in cur if not _same(b, op[1])] + [op[1]] * op[2]
        elif op[0] == "inc":             # multiprofile[ballot] += d
            cur = cur + [op[1]] * op[2]
        elif op[0] == "del":             # del multiprofile[ballot]
            cur = [b for b in cur if not _same(b, op[1])]
        else:
            raise ValueError(op)
    return cur


def _apply_ops(btype, projs, prof, ops, multi):
    from pabutools.election import ApprovalBallot, CardinalBallot, CumulativeBallot, OrdinalBallot

    def mk(b):
        if btype == "approval":
            x = ApprovalBallot([projs[i] for i in b])
        elif btype == "cardinal":
            x = CardinalBallot({projs[int(k)]: pb.num(v) for k, v in b.items()})
        elif btype == "cumulative":
            x = CumulativeBallot({projs[int(k)]: pb.num(v) for k, v in b.items()})
        else:
            x = OrdinalBallot([projs[i] for i in b])
        return x.frozen() if multi else x

    for op in ops:
        if op[0] == "append":
            prof.append(mk(op[1]))
        elif op[0] == "extend":
            prof.extend([mk(b) for b in op[1]])
        elif op[0] == "insert":
            prof.insert(op[1], mk(op[2]))
        elif op[0] == "delete":
            del prof[op[1]]
        elif op[0] == "pop":
            prof.pop(op[1])
        elif op[0] == "replace":
            prof[op[1]] = mk(op[2])
        elif op[0] == "setmul":
            prof[mk(op[1])] = op[2]
        elif op[0] == "inc":
            prof[mk(op[1])] += op[2]
        elif op[0] == "del":
            del prof[mk(op[1])]
        else:
            raise ValueError(op)


def impl(case):
    import pabutools.analysis as an
    from pabutools.analysis.profileproperties import votes_count_by_project, voter_flow_matrix
    from pabutools.analysis.votersatisfaction import percent_positive_satisfaction
    import pabutools.election.satisfaction as satmod
    from pabutools.utils import mean_generator, gini_coefficient
    import warnings

    warnings.simplefilter("ignore")
    from pabutools.election.satisfaction import SatisfactionMeasure
    from gmpy2 import mpq

    btype = case["btype"]
    inst, projs = pb.make_instance(case["costs"], case["budget"], case["order"])
    n = len(projs)
    if case.get("ctype") == "fraction":
        for p, c in zip(projs, case["costs"]):
            p.cost = pb.F(c)
        inst.budget_limit = pb.F(case["budget"])

    def typed(x, t):
        x = pb.F(x)
        if t == "fraction":
            return x
        if t == "mpq":
            return mpq(x.numerator, x.denominator)
        if t == "float":
            return float(x)
        return pb.num(x)

    class Table_Sat(SatisfactionMeasure):
        """satisfaction prescribed per ballot by the case (independent of the allocation)"""
        table = {}

        def sat(self, projects):
            return Table_Sat.table[_key(pb.rank(p) for p in self.ballot)]

        def sat_project(self, project):
            return 0

    if case.get("table"):
        Table_Sat.table = {kk: typed(v, case["table"]["type"]) for kk, v in case["table"]["vals"].items()}
    cats = case.get("cats")
    if cats:
        names = ["c%d" % k for k in range(cats["ncat"])]
        inst.categories = set(names)
        for p, cs in zip(projs, cats["pcats"]):
            p.categories = {names[k] for k in cs}
    from pabutools.election import Instance, Project
    bind = case.get("bind", "same")
    hist_ops = case.get("history")
    start_ballots = hist_ops["initial"] if hist_ops else case["ballots"]
    if bind == "same":
        listprof = pb.make_profile(btype, inst, projs, start_ballots, False)
    else:
        if bind == "unbound":
            bound = None
        elif bind == "equal":
            bound = Instance(projs, budget_limit=inst.budget_limit)
        else:
            bound = Instance([Project(p.name, p.cost + 1) for p in projs], budget_limit=pb.num(case["bind_budget"]))
        listprof = pb.make_profile(btype, bound, projs, start_ballots, False)
    prof = listprof.as_multiprofile() if case["multi"] else listprof

    def compute(ballots_now):
        """every statistic on the CURRENT state of the profile object; ballots_now = the voters it must stand for"""
        refprof = pb.make_profile(btype, inst, projs, ballots_now, False)   # reference: fresh, bound to the passed instance
        boundref = pb.make_profile(btype, prof.instance, projs, ballots_now, False)   # fresh, bound like the tested profile
        out = {}
        if case["multi"]:
            out["classes"] = [[_canon_ballot(btype, b), int(m)] for b, m in prof.items()]
        else:
            out["classes"] = [[_canon_ballot(btype, b), 1] for b in prof]
        class_ballots = list(prof.keys()) if case["multi"] else list(prof)
        nv = len(ballots_now)
        ex, fl, vec = {}, {}, {}
        if "instance" in case["ask"]:
            ex[1] = core.qj(an.sum_project_cost(inst))
            if pb.F(case["budget"]) > 0:
                ex[2] = core.qj(an.funding_scarcity(inst))
            if n:
                ex[3] = core.qj(an.avg_project_cost(inst))
                fl[4] = core.qj(an.median_project_cost(inst))
                if not case.get("big"):   # np.std cancels catastrophically on costs beyond 2**53: outside the 1e-9 claim
                    fl[5] = core.qj(an.std_dev_project_cost(inst))
        if "profile" in case["ask"]:
            ex[6] = core.qj(an.avg_ballot_length(inst, prof))
            fl[7] = core.qj(an.median_ballot_length(inst, prof))
            ex[8] = core.qj(an.avg_ballot_cost(inst, prof))
            fl[9] = core.qj(an.median_ballot_cost(inst, prof))
            if btype == "approval":
                ex[10] = core.qj(an.avg_approval_score(inst, prof))
                fl[11] = core.qj(an.median_approval_score(inst, prof))
                vec[14] = [core.qj(prof.approval_score(p)) for p in projs]
            if btype in ("cardinal", "cumulative"):
                ex[12] = core.qj(an.avg_total_score(inst, prof))
                fl[13] = core.qj(an.median_total_score(inst, prof))
                vec[15] = [core.qj(prof.total_score(p)) for p in projs]
        if "votes_count" in case["ask"]:
            vc = votes_count_by_project(prof)
            vec[16] = [core.qj(vc.get(p, 0)) for p in projs]
        if "voter_flow" in case["ask"]:
            vf = voter_flow_matrix(inst, prof)
            vec[17] = [core.qj(vf[str(a)][str(b)]) for a in projs for b in projs]
        out["exact"], out["float"], out["vec"] = ex, fl, vec

        sq = []
        for sqc in case["satq"]:
            cls = Table_Sat if sqc["meas"] == "Table_Sat" else getattr(satmod, sqc["meas"])
            alloc = [projs[j] for j in sqc["alloc"]]
            voters = [cls(inst, refprof, b).sat(alloc) for b in refprof]          # the definition: the PASSED instance
            classes = [cls(inst, prof, b).sat(alloc) for b in class_ballots]
            r = {"voters": [core.qj(v) for v in voters], "classes": [core.qj(v) for v in classes]}
            r["avg"] = core.qj(an.avg_satisfaction(inst, prof, alloc, cls))
            if sqc["meas"] == "CC_Sat" and btype == "approval":
                r["neh"] = core.qj(an.percent_non_empty_handed(inst, prof, alloc))
            if nv:
                # percent_positive_satisfaction takes no instance: it refers to the instance the profile is bound to
                pv = percent_positive_satisfaction(prof, alloc, cls)
                if bind == "same":
                    r["pos"] = core.qj(pv)
                else:
                    r["pos2"] = {"pos": core.qj(pv),
                                 "voters": [core.qj(cls(prof.instance, boundref, b).sat(alloc)) for b in boundref],
                                 "classes": [core.qj(cls(prof.instance, prof, b).sat(alloc)) for b in class_ballots]}
            for gk, inv in (("gini", False), ("gini_inv", True)):
                try:
                    r[gk] = core.qj(an.gini_coefficient_of_satisfaction(inst, prof, alloc, cls, invert=inv))
                except ValueError:
                    r[gk] = "raised"            # by design when some satisfaction is negative
            hs = []
            if nv:
                fv = [_F(v) for v in voters]
                for hq in sqc["hist"]:
                    if isinstance(hq, dict):
                        k, mx, mtype, omit = hq["k"], hq["max"], hq.get("mtype", "auto"), hq.get("omit_k", False)
                    else:
                        (k, mx), mtype, omit = hq, "auto", False
                    if mx[0] == "lit":
                        m = pb.F(mx[1])
                    elif mx[0] == "max":
                        m = max(fv) if max(fv) > 0 else Fraction(1)
                    else:
                        s = fv[mx[1] % len(fv)]
                        m = s * (k - 1) / mx[2] if s > 0 else Fraction(k - 1, mx[2])
                    if any(s * (k - 1) / m <= -1 for s in fv):
                        continue    # candidate defect (reported): ceil(...) <= -1 indexes the list from its end
                    if mtype == "float" and not _dyadic(m):
                        mtype = "mpq"
                    if omit and k == 21:
                        res = an.satisfaction_histogram(inst, prof, alloc, cls, typed(m, mtype))   # default num_bins
                    else:
                        res = an.satisfaction_histogram(inst, prof, alloc, cls, typed(m, mtype), k)
                    hs.append([k, pb.qs(m), [core.qj(x) for x in res], mtype])
            r["hist"] = hs
            sq.append(r)
        out["satq"] = sq

        if cats and nv:
            alloc = [projs[j] for j in cats["alloc"]]
            cF = [pb.F(c) for c in case["costs"]]
            ok = all(sum((cF[r] for r, _ in _canon_case_ballot(btype, b)), Fraction(0)) > 0 for b in ballots_now)
            ok = ok and (not alloc or sum((cF[j] for j in cats["alloc"]), Fraction(0)) > 0)
            if ok:
                out["catprop"] = core.qj(an.category_proportionality(inst, prof, alloc))
        return out

    if hist_ops:
        # history stream: look at every statistic, change the SAME profile object in place, look again with the same
        # instance / profile / measure objects; the second answers must be those of the final profile
        compute(start_ballots)
        _apply_ops(btype, projs, prof, hist_ops["ops"], case["multi"])
        sim = simulate(start_ballots, hist_ops["ops"], case["multi"])
        if sorted(map(_keyb, sim)) != sorted(map(_keyb, case["ballots"])):
            raise RuntimeError("harness: case['ballots'] is not the result of the history")
    out = compute(case["ballots"])
    nt = case.get("numtype", "auto")
    mq = []
    for stream in case["meanq"]:
        if stream and stream[0][1] is None:
            arg = [typed(v, nt) for v, _ in stream]
        else:
            arg = [(typed(v, nt), m) for v, m in stream]
        mq.append(core.qj(mean_generator(x for x in arg)))
    out["meanq"] = mq
    gq = []
    for vals in case["giniq"]:
        try:
            gq.append(core.qj(gini_coefficient([typed(v, nt) for v in vals])))
        except ValueError:
            gq.append(None)
    out["giniq"] = gq
    return out


# ----------------------------------------------------------------------------------------------
def _bal(b):
    return lst([pair(core.nat(r), q(s)) for r, s in b])


def _oq(x):
    return "None" if x is None else "(Some %s)" % q(x)


def _oqr(x):
    """answer that may be an exception"""
    return "None" if x is None else "(Some None)" if x == "raised" else "(Some (Some %s))" % q(x)


def coq_case(case, o):
    btype = case["btype"]
    ballots = lst([_bal(_canon_case_ballot(btype, b)) for b in case["ballots"]])
    classes = lst([pair(_bal(b), core.nat(m)) for b, m in o["classes"]])
    exact = lst([pair(core.nat(k), q(v)) for k, v in sorted((int(k), v) for k, v in o["exact"].items())])
    flt = lst([pair(core.nat(k), q(v)) for k, v in sorted((int(k), v) for k, v in o["float"].items())])
    vec = lst([pair(core.nat(k), core.qlist(v)) for k, v in sorted((int(k), v) for k, v in o["vec"].items())])
    sqs = []
    for sqc, r in zip(case["satq"], o["satq"]):
        hist = lst([pair(core.nat(h[0]), q(h[1]), core.qlist(h[2])) for h in r["hist"]])
        sqs.append("(mkSatq %s %s %s %s %s %s %s %s %s %s %s)" % (
            natl(sqc["alloc"]), core.nat(MEAS_ID.get(sqc["meas"], 0) if btype == "approval" else 0), boolc(sqc["meas"] not in FLOAT_MEAS),
            core.qlist(r["voters"]), core.qlist(r["classes"]), _oq(r.get("avg")), _oq(r.get("neh")),
            _oq(r.get("pos")), _oqr(r.get("gini")), _oqr(r.get("gini_inv")), hist))
        if r.get("pos2"):
            p2 = r["pos2"]
            sqs.append("(mkSatq %s 0%%nat true %s %s None None %s None None [])" % (
                natl(sqc["alloc"]), core.qlist(p2["voters"]), core.qlist(p2["classes"]), _oq(p2["pos"])))
    cats = case.get("cats")
    if cats:
        pcats = lst([natl(cs) for cs in cats["pcats"]])
        ncat = core.nat(cats["ncat"])
        calloc = natl(cats["alloc"])
    else:
        pcats, ncat, calloc = "[]", "0%nat", "([]%nat)"
    meanq = lst([pair(lst([pair(q(v), core.nat(1 if m is None else m)) for v, m in stream]), q(r))
                 for stream, r in zip(case["meanq"], o["meanq"])])
    giniq = lst([pair(core.qlist(vals), _oq(r)) for vals, r in zip(case["giniq"], o["giniq"])])
    return "(mkCase %s %s %s %s %s %s %s %s %s %s %s %s %s %s)" % (
        core.qlist(case["costs"]), q(case["budget"]), ballots, classes, calloc, exact, flt, vec, lst(sqs),
        pcats, ncat, _oq(o.get("catprop")), meanq, giniq)


# ----------------------------------------------------------------------------------------------
def _keyb(b):
    return repr(sorted(b.items())) if isinstance(b, dict) else repr(b)


def nontrivial(case, o):
    if len({_keyb(b) for b in case["ballots"]}) < 2:
        return None
    if not any(len(set(r["voters"])) > 1 for r in o.get("satq", [])):
        return None
    return [case["btype"], case["multi"], case["costs"], case["budget"], [_keyb(b) for b in case["ballots"]]]


def stats(cases, obs):
    d = {"btype": {}, "multiprofile": 0, "some_multiplicity_ge2": 0, "has_empty_ballot": 0, "no_voters": 0,
         "no_projects": 0, "fractional_costs": 0, "has_zero_cost": 0, "nvoters_hist": {}, "nproj_hist": {},
         "sat_queries": 0, "sat_queries_by_measure": {}, "all_zero_sat_vectors": 0, "float_measure_queries": 0,
         "empty_allocation_queries": 0, "histograms": 0, "bins_hist": {}, "voter_on_inner_bin_edge": 0,
         "voter_at_or_above_max": 0, "category_calls": 0, "votes_count_calls": 0, "even_voter_count_median": 0,
         "mean_generator_calls": 0, "gini_calls": 0, "gini_value_error": 0, "costs_beyond_2_53": 0}
    d["max_satisfaction_type"] = {}
    d["cost_type"] = {}
    d["profile_binding"] = {}
    d["history_cases"] = 0
    d["history_ops"] = {}
    d["sat_vectors_with_negative_value"] = 0
    d["gini_raised_on_negative"] = 0
    d["instance_dependent_measure_on_foreign_binding"] = 0
    d["helper_arg_type"] = {}
    full = {}
    for c, o in zip(cases, obs):
        if not isinstance(o, dict) or "classes" not in o:
            continue
        d["cost_type"][c.get("ctype", "auto")] = d["cost_type"].get(c.get("ctype", "auto"), 0) + 1
        d["helper_arg_type"][c.get("numtype", "auto")] = d["helper_arg_type"].get(c.get("numtype", "auto"), 0) + 1
        if c.get("history"):
            d["history_cases"] += 1
            for op in c["history"]["ops"]:
                d["history_ops"][op[0]] = d["history_ops"].get(op[0], 0) + 1
        for r in o["satq"]:
            d["sat_vectors_with_negative_value"] += any(pb.F(v) < 0 for v in r["voters"])
            d["gini_raised_on_negative"] += r.get("gini") == "raised"
        bd = c.get("bind", "same")
        d["profile_binding"][bd] = d["profile_binding"].get(bd, 0) + 1
        d["instance_dependent_measure_on_foreign_binding"] += sum(
            1 for sq in c["satq"] if sq["meas"] in INSTANCE_DEPENDENT and bd in ("unbound", "other"))
        d["btype"][c["btype"]] = d["btype"].get(c["btype"], 0) + 1
        d["multiprofile"] += bool(c["multi"])
        d["costs_beyond_2_53"] += bool(c.get("big"))
        d["some_multiplicity_ge2"] += any(m >= 2 for _, m in o["classes"])
        d["has_empty_ballot"] += any(len(b) == 0 for b in c["ballots"])
        nv = len(c["ballots"])
        d["no_voters"] += nv == 0
        d["no_projects"] += len(c["costs"]) == 0
        d["even_voter_count_median"] += (nv > 0 and nv % 2 == 0)
        cs = [pb.F(x) for x in c["costs"]]
        d["fractional_costs"] += any(x.denominator != 1 for x in cs)
        d["has_zero_cost"] += any(x == 0 for x in cs)
        d["nvoters_hist"][str(nv)] = d["nvoters_hist"].get(str(nv), 0) + 1
        d["nproj_hist"][str(len(cs))] = d["nproj_hist"].get(str(len(cs)), 0) + 1
        d["votes_count_calls"] += "16" in o["vec"] or 16 in o["vec"]
        d["category_calls"] += "catprop" in o
        d["mean_generator_calls"] += len(o["meanq"])
        d["gini_calls"] += len(o["giniq"])
        d["gini_value_error"] += sum(1 for g in o["giniq"] if g is None)
        for sqc, r in zip(c["satq"], o["satq"]):
            d["sat_queries"] += 1
            d["sat_queries_by_measure"][sqc["meas"]] = d["sat_queries_by_measure"].get(sqc["meas"], 0) + 1
            d["float_measure_queries"] += sqc["meas"] in FLOAT_MEAS
            d["empty_allocation_queries"] += not sqc["alloc"]
            fv = [pb.F(v) for v in r["voters"]]
            d["all_zero_sat_vectors"] += bool(fv) and all(v == 0 for v in fv)
            for h in r["hist"]:
                k, m = h[0], pb.F(h[1])
                mtype = h[3] if len(h) > 3 else "auto"
                d["histograms"] += 1
                d["bins_hist"][str(k)] = d["bins_hist"].get(str(k), 0) + 1
                key = "int" if (mtype == "auto" and m.denominator == 1) else ("mpq" if mtype == "auto" else mtype)
                d["max_satisfaction_type"][key] = d["max_satisfaction_type"].get(key, 0) + 1
                edges = set()
                for s in fv:
                    if s >= m:
                        d["voter_at_or_above_max"] += 1
                    elif s > 0 and (s * (k - 1) / m).denominator == 1:
                        d["voter_on_inner_bin_edge"] += 1
                        edges.add(int(s * (k - 1) / m))
                if edges >= set(range(1, k - 1)):
                    full.setdefault(key, set()).add(k)
    # bin counts for which some histogram had a voter on every interior bin edge, by type of max_satisfaction
    d["bin_counts_with_every_inner_edge_hit"] = {t: sorted(v) for t, v in full.items()}
    d["all_bin_counts_2_25_fully_hit_with_int_max"] = set(range(2, 26)) <= full.get("int", set())
    return d


def shrink(case):
    n = len(case["costs"])
    nv = len(case["ballots"])
    # fewer satisfaction queries / auxiliary queries
    if len(case["satq"]) > 1:
        for j in range(len(case["satq"])):
            c = dict(case)
            c["satq"] = [case["satq"][j]]
            yield c
    if case["satq"]:
        c = dict(case)
        c["satq"] = []
        yield c
    for key in ("meanq", "giniq"):
        if case[key]:
            c = dict(case)
            c[key] = []
            yield c
            if len(case[key]) > 1:
                for j in range(len(case[key])):
                    c = dict(case)
                    c[key] = [case[key][j]]
                    yield c
    if case.get("cats"):
        c = dict(case)
        c["cats"] = None
        yield c
    for a in case["ask"]:
        c = dict(case)
        c["ask"] = [x for x in case["ask"] if x != a]
        yield c
    for sj, sqc in enumerate(case["satq"]):
        if len(sqc["hist"]) > 0:
            for hj in range(len(sqc["hist"]) + 1):
                c = dict(case)
                c["satq"] = [dict(s) for s in case["satq"]]
                c["satq"][sj]["hist"] = [sqc["hist"][hj]] if hj < len(sqc["hist"]) and len(sqc["hist"]) > 1 else []
                yield c
    if case.get("history"):
        h = case["history"]
        c = dict(case)
        c["history"] = None          # the final profile built directly
        yield c
        for j in range(len(h["ops"])):
            ops = h["ops"][:j] + h["ops"][j + 1:]
            try:
                fin = simulate(h["initial"], ops, case["multi"])
            except Exception:
                continue
            c = dict(case)
            c["history"] = {"initial": h["initial"], "ops": ops}
            c["ballots"] = fin
            yield c
        for j in range(len(h["initial"])):
            ini = h["initial"][:j] + h["initial"][j + 1:]
            try:
                fin = simulate(ini, h["ops"], case["multi"])
            except Exception:
                continue
            c = dict(case)
            c["history"] = {"initial": ini, "ops": h["ops"]}
            c["ballots"] = fin
            yield c
        return
    # drop a voter
    for j in range(nv):
        c = dict(case)
        c["ballots"] = case["ballots"][:j] + case["ballots"][j + 1:]
        yield c
    # drop a project
    for j in range(n):
        ren = lambda W: [x - (x > j) for x in W if x != j]
        c = dict(case)
        c["costs"] = case["costs"][:j] + case["costs"][j + 1:]
        c["order"] = ren(case["order"])
        if case["btype"] in ("cardinal", "cumulative"):
            c["ballots"] = [{str(int(k) - (int(k) > j)): v for k, v in b.items() if int(k) != j} for b in case["ballots"]]
        else:
            c["ballots"] = [ren(b) for b in case["ballots"]]
        c["satq"] = [dict(s, alloc=ren(s["alloc"])) for s in case["satq"]]
        if case.get("cats"):
            cc = dict(case["cats"])
            cc["pcats"] = cc["pcats"][:j] + cc["pcats"][j + 1:]
            cc["alloc"] = ren(cc["alloc"])
            c["cats"] = cc
        yield c
    # integral costs
    if any(pb.F(x).denominator != 1 for x in case["costs"]):
        c = dict(case)
        c["costs"] = [pb.qs(max(1, round(pb.F(x)))) for x in case["costs"]]
        yield c
    if case["multi"]:
        c = dict(case)
        c["multi"] = False
        yield c
