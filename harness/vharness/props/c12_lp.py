"""Exact-rational LP layer of the C12 harness (NOT trusted: everything it produces is a certificate that is
checked inside Coq by check_witness / check_farkas / ps_constraints).

`rows_py` builds the linear system of Model.ps_rows_g -- same rows, same order -- and `solve` decides it
(phase 1) or minimises a linear objective over it (phase 2) with a dense Bland simplex on gmpy2.mpq / Fraction,
returning a point or Farkas multipliers for the FULL row list (integers)."""
from __future__ import annotations

from fractions import Fraction

try:  # exact rationals: gmpy2 when present (fast), Fraction otherwise
    from gmpy2 import mpq as _Q
except Exception:  # pragma: no cover
    _Q = Fraction

KINDS = ("mul", "add", "vec", "vecpos", "off")


def Qm(x):
    if isinstance(x, Fraction):
        return _Q(x.numerator, x.denominator)
    return _Q(x)


def toF(x) -> Fraction:
    return Fraction(int(x.numerator), int(x.denominator))


def s5_terms(kind, costs, c):
    if kind is None:
        return {}
    if kind == "mul":
        return {("g",): -costs[c]}
    if kind == "add":
        return {("g",): -1}
    if kind in ("vec", "vecpos"):
        return {("bc", c): -1}
    return {("g",): -1, ("bc", c): -1}


def rows_py(costs, B, ballots, W, stable, lb, kind=None, rng=False, consts=None):
    """Model.ps_rows_g I A W stable lb kind rng  ->  [(dict var->coef, rhs, tag)]"""
    m, n = len(costs), len(ballots)
    C, N = range(m), range(n)
    NW = [c for c in C if c not in W]
    sup = lambda c: [i for i in N if c in ballots[i]]
    consts = consts or {}
    INFR = Fraction(consts.get("inf_factor", 10)) * B
    CAP = Fraction(consts.get("cap_factor", 10)) * B
    FRAC = Fraction(consts.get("fraction", Fraction(1, 40))) * B
    rows = []
    rows.append(({("b",): -1}, 0, ("b0",)))
    for i in N:
        for c in C:
            rows.append(({("p", i, c): -1}, 0, ("p0", i, c)))
    for i in N:
        for c in C:
            if c not in ballots[i]:
                rows.append(({("p", i, c): 1}, 0, ("c1", i, c)))
    for i in N:
        d = {("b",): -1}
        for c in C:
            d[("p", i, c)] = 1
        rows.append((d, 0, ("c2", i)))
    for c in W:
        rows.append(({("p", i, c): 1 for i in N}, costs[c], ("c3le", c)))
        rows.append(({("p", i, c): -1 for i in N}, -costs[c], ("c3ge", c)))
    for c in NW:
        rows.append(({("p", i, c): 1 for i in N}, 0, ("c4", c)))

    def s5row(c, sel):
        d = {("m", i): 1 for i in sup(c)}
        d.update(s5_terms(kind, costs, c))
        const = 0 if kind == "mul" else costs[c]
        return (d, const + (INFR if sel else 0), ("s5sel" if sel else "s5", c))
    if stable:
        for i in N:
            for c in C:
                rows.append(({("p", i, c): 1, ("m", i): -1}, 0, ("sp", i, c)))
        for i in N:
            d = {("m", i): -1, ("b",): 1}
            for c in C:
                d[("p", i, c)] = -1
            rows.append((d, 0, ("sl", i)))
        for i in N:
            rows.append(({("m", i): -1}, 0, ("m0", i)))
        for c in NW:
            rows.append(s5row(c, False))
    else:
        for c in NW:
            d = {}
            for i in sup(c):
                d[("b",)] = d.get(("b",), 0) + 1
                for c2 in C:
                    d[("p", i, c2)] = d.get(("p", i, c2), 0) - 1
            rows.append((d, costs[c], ("c5", c)))
    if lb:
        rows.append(({("b",): -n}, -B, ("lb",)))
    if kind is not None and rng:
        for c in W:
            rows.append(s5row(c, True))
        if kind == "mul":
            rows.append(({("g",): -1}, 0, ("g0",)))
        elif kind == "add":
            rows.append(({("g",): -1}, INFR, ("g0",)))
        elif kind == "vec":
            for c in C:
                cap = 0 if c in W else CAP
                rows.append(({("bc", c): -1}, INFR, ("bc0", c)))
                rows.append(({("bc", c): 1}, cap, ("bcub", c)))
                rows.append(({("bc", c): -1}, cap, ("bclb", c)))
        elif kind == "vecpos":
            for c in C:
                rows.append(({("bc", c): -1}, 0, ("bc0", c)))
        elif kind == "off":
            rows.append(({("g",): -1}, INFR, ("g0",)))
            for c in C:
                rows.append(({("bc", c): -1}, 0, ("bc0", c)))
            rows.append(({("bc", c): 1 for c in C}, FRAC, ("bcsum",)))
    return rows


def objective_row(kind, m, t):
    if kind in ("mul", "add", "off"):
        return ({("g",): 1}, t, ("obj",))
    return ({("bc", c): 1 for c in range(m)}, t, ("obj",))


def objective_coefs(kind, m):
    return objective_row(kind, m, 0)[0]


# ----------------------------------------------------------------------------------------------
# dense exact simplex:  x >= 0,  A x <= rhs ;  optional  min cost.x
# ----------------------------------------------------------------------------------------------
def _pivot(T, rcs, bj, ent, ncol):
    piv = T[bj][ent]
    prow = [v / piv if v else v for v in T[bj]]
    T[bj] = prow
    nz = [k for k in range(ncol + 1) if prow[k]]
    for j in range(len(T)):
        if j != bj:
            f = T[j][ent]
            if f:
                rj = T[j]
                for k in nz:
                    rj[k] -= f * prow[k]
    for rc in rcs:
        f = rc[ent]
        if f:
            for k in nz:
                rc[k] -= f * prow[k]


def simplex(A, rhs, nvar, cost=None):
    """-> ("unsat", y)  with y >= 0, y^T A >= 0, y^T rhs < 0
       -> ("sat", x, value)   (value None without cost; the minimum of cost.x otherwise)"""
    R = len(A)
    zero, one = _Q(0), _Q(1)
    art_rows = [j for j in range(R) if rhs[j] < 0]
    nreal = nvar + R
    ncol = nreal + len(art_rows)
    T, basis = [], []
    ak = 0
    for j in range(R):
        s = -1 if rhs[j] < 0 else 1
        row = [zero] * (ncol + 1)
        for k, a in A[j].items():
            row[k] = Qm(a) * s
        row[nvar + j] = _Q(s)
        row[ncol] = Qm(rhs[j]) * s
        if s < 0:
            col = nreal + ak
            ak += 1
            row[col] = one
            basis.append(col)
        else:
            basis.append(nvar + j)
        T.append(row)
    rc = [zero] * (ncol + 1)
    for k in range(nreal, ncol):
        rc[k] = one
    for j in range(R):
        if basis[j] >= nreal:
            rj = T[j]
            for k in range(ncol + 1):
                if rj[k]:
                    rc[k] -= rj[k]

    def iterate(rcrow, rcs, limit):
        for _ in range(50000):
            ent = -1
            for k in range(limit):
                if rcrow[k] < 0:
                    ent = k
                    break
            if ent < 0:
                return
            best, bj = None, -1
            for j in range(R):
                a = T[j][ent]
                if a > 0:
                    r = T[j][ncol] / a
                    if best is None or r < best or (r == best and basis[j] < basis[bj]):
                        best, bj = r, j
            if bj < 0:
                raise RuntimeError("LP unbounded")
            _pivot(T, rcs, bj, ent, ncol)
            basis[bj] = ent
        raise RuntimeError("simplex did not terminate")

    iterate(rc, [rc], ncol)
    if -rc[ncol] > 0:
        return ("unsat", [rc[nvar + j] for j in range(R)])
    if cost is not None:
        # drive the artificial variables out of the basis (they are at value 0)
        for j in range(R):
            if basis[j] >= nreal:
                for k in range(nreal):
                    if T[j][k]:
                        _pivot(T, [rc], j, k, ncol)
                        basis[j] = k
                        break
        c2 = [zero] * (ncol + 1)
        for k, a in cost.items():
            c2[k] = Qm(a)
        for j in range(R):
            cb = c2[basis[j]] if basis[j] < nreal else zero
            # reduced costs: c_k - sum_j c_B(j) T[j][k]
        rc2 = list(c2)
        for j in range(R):
            if basis[j] < nvar and cost.get(basis[j]):
                f = Qm(cost[basis[j]])
                rj = T[j]
                for k in range(ncol + 1):
                    if rj[k]:
                        rc2[k] -= f * rj[k]
        iterate(rc2, [rc2], nreal)
    x = [zero] * nvar
    for j in range(R):
        if basis[j] < nvar:
            x[basis[j]] = T[j][ncol]
    val = None
    if cost is not None:
        val = sum((Qm(a) * x[k] for k, a in cost.items()), zero)
    return ("sat", x, val)


def _gcd(a, b):
    while b:
        a, b = b, a % b
    return a


def solve(rows, ballots, W, objective=None):
    """Decide / optimise the system `rows` (as produced by rows_py, possibly with an objective row appended).
    -> ("sat", point: dict var->Fraction, value)  or  ("unsat", ys: list[int] aligned with rows)."""
    n = len(ballots)
    dead = set()
    allvars = []
    for d, r, tag in rows:
        for v in d:
            if v not in allvars:
                allvars.append(v)
    for v in allvars:
        if v[0] == "p" and (v[2] not in ballots[v[1]] or v[2] not in W):
            dead.add(v)
    # lower bounds from the single-variable rows  -v <= r
    lbrow = {}
    for j, (d, r, tag) in enumerate(rows):
        if len(d) == 1:
            (v, a), = d.items()
            if a == -1 and v not in dead:
                if v not in lbrow or Fraction(r) < Fraction(rows[lbrow[v]][1]):
                    lbrow[v] = j
    live = [v for v in allvars if v not in dead]
    for v in live:
        if v not in lbrow:
            raise RuntimeError("variable without a lower-bound row: %r" % (v,))
    low = {v: -Fraction(rows[lbrow[v]][1]) for v in live}
    idx = {v: k for k, v in enumerate(live)}
    sub, subr, subj = [], [], []
    for j, (d, r, tag) in enumerate(rows):
        if tag[0] in ("c1", "c4") or (tag[0] == "p0" and ("p", tag[1], tag[2]) in dead):
            continue
        if tag[0] == "sp" and ("p", tag[1], tag[2]) in dead:
            continue
        if len(d) == 1 and list(d.values())[0] == -1 and list(d)[0] in lbrow:
            continue        # a lower-bound row: the chosen one is implicit, the others are implied by it
        dd = {idx[v]: a for v, a in d.items() if v in idx and a != 0}
        rr = Fraction(r) - sum((Fraction(a) * low[v] for v, a in d.items() if v in idx), Fraction(0))
        if not dd:
            if rr < 0:
                ys = [Fraction(0)] * len(rows)
                ys[j] = Fraction(1)
                return ("unsat", _complete(rows, ys, dead, lbrow))
            continue
        sub.append(dd)
        subr.append(rr)
        subj.append(j)
    cost = None
    if objective is not None:
        cost = {idx[v]: a for v, a in objective.items() if v in idx}
    res = simplex(sub, subr, len(live), cost)
    if res[0] == "unsat":
        ys = [Fraction(0)] * len(rows)
        for j, y in zip(subj, res[1]):
            ys[j] = toF(y)
        return ("unsat", _complete(rows, ys, dead, lbrow))
    x = res[1]
    point = {v: toF(x[idx[v]]) + low[v] for v in live}
    for v in dead:
        point[v] = Fraction(0)
    val = None
    if objective is not None:
        val = sum((Fraction(a) * point[v] for v, a in objective.items()), Fraction(0))
    return ("sat", point, val)


def _complete(rows, ys, dead, lbrow):
    """Extend multipliers of the presolved, shifted system to the full system: cancel every column with the
    rows that were left out (C4 / C1 rows for the payments forced to zero, lower-bound rows for the rest)."""
    ys = [Fraction(y) for y in ys]
    tagidx = {tag: j for j, (_, _, tag) in enumerate(rows)}

    def resid():
        r = {}
        for y, (d, _, _) in zip(ys, rows):
            if y:
                for v, a in d.items():
                    r[v] = r.get(v, 0) + y * a
        return r
    r = resid()
    for tag, j in tagidx.items():
        if tag[0] == "c4":
            low = min([r.get(v, 0) for v in rows[j][0]] + [0])
            if low < 0:
                ys[j] += -low
    r = resid()
    for v, val in r.items():
        if val < 0:
            if v[0] == "p" and ("c1", v[1], v[2]) in tagidx:
                ys[tagidx[("c1", v[1], v[2])]] += -val
            else:
                raise RuntimeError("negative residual on a live column %r" % (v,))
    r = resid()
    for v, val in r.items():
        if val > 0:
            if v in lbrow:
                ys[lbrow[v]] += val
            elif v[0] == "p":
                ys[tagidx[("p0", v[1], v[2])]] += val
            else:
                raise RuntimeError("no bound row for %r" % (v,))
    r = resid()
    if any(val != 0 for val in r.values()) or any(y < 0 for y in ys) or \
            sum(y * Fraction(rr) for y, (_, rr, _) in zip(ys, rows)) >= 0:
        raise RuntimeError("internal: Farkas completion failed")
    den = 1
    for y in ys:
        den = den * y.denominator // _gcd(den, y.denominator)
    return [int(y * den) for y in ys]
