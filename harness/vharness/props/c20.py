"""C20 -- rules and analyses leave their inputs untouched.

A case is a sequence of 1..4 calls of public entry points that SHARE one instance, profile, satisfaction profile,
initial allocation, allocation and parameter dictionaries.  Before the sequence and after every call a deep
structural snapshot (type, attributes, contents, recursively; memoisation caches excluded) of every shared
object is taken; afterwards every call is repeated on fresh copies.  Coq compares the snapshots (canonical
trees) with each other and with the caller view predicted by the effects model (Model/Effects.v), and the
answers of the shared run with those of the fresh runs."""
from __future__ import annotations

import json
import math
from fractions import Fraction

from .. import core
from ..core import q, lst
from .. import pb

ID = "C20"
ORACLE = "Oracle.C20"
PROPS = ["Props/C20.v", "Props/C20gen.v"]
LEVEL = "proof"
SHARD = 40
CODES = {
    1: ("oracle", "an argument (instance, profile, ballots, satisfaction profile, initial allocation, allocation or "
                  "parameter dictionary) was modified by a call"),
    2: ("oracle", "re-using the same objects gives a different answer than fresh copies"),
    3: ("model", "the caller-visible state after the call differs from the one predicted by the effects model "
                 "(Model/Effects.v)"),
    core.RAISED: ("oracle", "the call raised / the interpreter died outside the solver"),
}
RULE = ("approval (and, for satisfaction/statistics calls, cardinal) elections with 1..4 voters, 1..5 projects, "
        "Profile and MultiProfile, feasible initial allocations; sequences of 1..4 calls drawn from: greedy, "
        "max welfare (primal/dual), Equal Shares plain/iterated/irresolute, Phragmen, completion, budget increase, "
        "popularity and social-welfare comparison, satisfaction profiles and measures, statistics, JR checkers, "
        "priceability (solver), mesanalytics; caller-owned sat_profile and parameter dictionaries shared across the "
        "calls; non-trivial = distinct sequence with at least two calls")
ASSUMPTIONS = [
    "the snapshot walks __dict__, list/set/dict contents and slots-free objects; C-level state outside these "
    "(none in pabutools' classes) is invisible to it",
    "memoisation caches (AdditiveSatisfaction.scores, MESVoter.budget_over_sat_map) are excluded from the caller's "
    "view (Props/C20.v memo_transparent)",
    "calculate_effective_supports(final_budget=...) is excluded as a documented override",
    "CBC (priceable): answers re-validated; faults discarded",
]
TRUSTED = ["effect summaries of the 19 entry points are REGENERATED from /repo's source on every run by the fail-closed ast translator harness/vharness/anchors_effects.py (its aliasing model, freshness rules and allow-list are the trusted base: DESIGN.md C20 addendum); Model/Effects.v additionally keeps hand-made summaries",
           "the harness snapshot function"]
EXPLANATION = ("Theorem half, regenerated part (Props/C20gen.v): for the summary the translator derives from the CURRENT source of each of the 19 entry points, the verified boolean writes_only_fresh holds (by vm_compute), hence by the frame theorem the caller view is unchanged; re-introducing a write through a caller object breaks the named ok_<entry> lemma. Theorem half, hand-made part (weak): in a small effect language with by-reference calls, every program whose writes "
               "target only objects allocated by the call leaves the caller's objects unchanged; every entry point's "
               "hand-written effect summary is such a program; memo caches are transparent.  Decisive half: "
               "snapshot correspondence on the real code (pre = post after every call of a sequence) and equality of "
               "answers between re-used and fresh objects, evaluated in Coq.")

POOLS = [[1, 1, 2, 2, 3], [0, 1, 2, 3], ["1/2", "3/2", 1, 2], [2, 2, 2], [0, 0, 1, 2]]

# entry ids of Model/Effects.v
E_GREEDY, E_MAXW, E_MES, E_MESIT, E_PHRAG, E_COMPL, E_INCR, E_POP, E_SWC, E_SAT, E_RO, E_EFFS, E_EFFSS, E_LOSS = range(14)

CALLS = ["greedy", "greedy_satprof", "maxwelfare", "mes", "mes_satprof", "mes_irr", "mes_iter", "phragmen",
         "phragmen_irr", "completion", "completion_irr", "increase", "increase_irr", "increase_phragmen",
         "popularity", "swc", "satprofile", "sat_calls", "stats", "jr", "priceable", "project_loss",
         "eff_support", "eff_supports", "cohesive", "validate_price", "greedy_analytics", "mes_analytics",
         "mes_skipped", "mes_skipped_plain", "phragmen_loads", "phragmen_loads_irr", "completion_phragmen",
         "priceable_payments", "category", "jr_cardinal", "cohesive_cardinal", "cardinal_stats", "raisers"]
ENTRY = {"greedy": E_GREEDY, "greedy_satprof": E_GREEDY, "maxwelfare": E_MAXW, "mes": E_MES, "mes_satprof": E_MES,
         "mes_irr": E_MES, "mes_iter": E_MESIT, "phragmen": E_PHRAG, "phragmen_irr": E_PHRAG, "completion": E_COMPL,
         "completion_irr": E_COMPL, "increase": E_INCR, "increase_irr": E_INCR, "increase_phragmen": E_INCR,
         "popularity": E_POP, "swc": E_SWC, "satprofile": E_SAT, "sat_calls": E_SAT, "stats": E_RO, "jr": E_RO,
         "priceable": E_RO, "project_loss": E_LOSS, "eff_support": E_EFFS, "eff_supports": E_EFFSS,
         "cohesive": E_RO, "validate_price": E_RO, "greedy_analytics": E_GREEDY, "mes_analytics": E_MES,
         "mes_skipped": E_MES, "mes_skipped_plain": E_MES, "phragmen_loads": E_PHRAG, "phragmen_loads_irr": E_PHRAG,
         "completion_phragmen": E_COMPL, "priceable_payments": E_RO, "category": E_RO,
         "jr_cardinal": E_RO, "cohesive_cardinal": E_RO, "cardinal_stats": E_RO, "raisers": E_RO, "reuse_probe": E_RO, "(setup)": E_SAT}
# how the shared initial allocation is built: a plain list, a BudgetAllocation without details, the outcome of an
# earlier analytics=True run (its details object is then caller-owned state), or a BudgetAllocation with fresh
# details of either kind
INIT_KINDS = ["list", "list", "list", "ba_plain", "greedy_run", "greedy_run", "mes_run", "mes_run", "manual_greedy",
              "manual_mes"]
ANALYTICS_CALLS = ["greedy_analytics", "greedy_analytics", "mes_analytics", "mes_skipped", "mes_skipped_plain"]
SOLVER_CALLS = {"priceable", "priceable_payments"}
# keys a caller may put into a parameter dictionary (Equal Shares / greedy) resp. into Phragmen's
PKEYS = ["initial_budget_allocation", "resoluteness", "tie_breaking", "analytics", "sat_profile"]
PPKEYS = ["initial_budget_allocation", "resoluteness", "tie_breaking", "initial_loads"]
LOADS_CALLS = ["phragmen_loads", "phragmen_loads", "phragmen_loads_irr", "increase_phragmen", "completion_phragmen"]
WRAPPER_CALLS = ["increase", "increase", "increase_irr", "increase_phragmen", "completion", "completion_irr",
                 "popularity", "swc", "eff_support", "eff_supports"]


# numeric values a caller may hold in payment functions, loads, voter budgets: ordinary ones, zeros of every type, tiny
# non-zero values (zero at CHECK_ROUND_PRECISION), negative values, huge integers, fractions with large denominators
ORDINARY = ["int:0", "int:0", "int:1", "int:2", "mpq:1/2", "mpq:1/3", "mpq:3/2"]
EXOTIC = ["mpq:1/250", "Fraction:1/1000", "float:5e-17", "float:-1e-12", "float:0.0", "Fraction:0/1", "mpq:0/1", "int:-1",
          "mpq:-1/3", "int:1000000000000000000", "Fraction:100000000000000000001/100000000000000000000",
          "mpq:1/1000000007", "float:0.004", "mpq:-1/500", "float:0.5", "Fraction:1/2"]


def val(spec):
    """'type:value' -> number of exactly that Python type (plain 'n/d' strings of older cases: int or mpq)"""
    import gmpy2

    if ":" not in spec:
        return pb.num(spec)
    t, v = spec.split(":", 1)
    if t == "int":
        return int(v)
    if t == "float":
        return float(v)
    f = Fraction(v)
    return gmpy2.mpq(f.numerator, f.denominator) if t == "mpq" else f


def pick(rng, exotic=0.35):
    return rng.choice(EXOTIC) if rng.random() < exotic else rng.choice(ORDINARY)


def budget(tier):
    return 420 if tier == "quick" else 6000


def gen(rng, i, tier):
    m = rng.choice([1, 2, 3, 3, 4, 4, 5])
    n = rng.choice([1, 2, 2, 3, 3, 4])
    pool = rng.choice(POOLS)
    costs = [pb.F(rng.choice(pool)) for _ in range(m)]
    tot = sum(costs, Fraction(0))
    B = rng.choice([max(costs), tot / 2, tot, Fraction(rng.choice([1, 2, 3, 4])), tot * Fraction(3, 4)])
    if B <= 0:
        B = Fraction(2)
    ballots = []
    for _ in range(n):
        if ballots and rng.random() < 0.25:
            ballots.append(list(rng.choice(ballots)))
        elif rng.random() < 0.08:
            ballots.append([])
        else:
            ballots.append(sorted(rng.sample(range(m), rng.randrange(1, m + 1))))
    init = []
    if rng.random() < 0.35:
        c = Fraction(0)
        for p in rng.sample(range(m), min(m, rng.randrange(1, 3))):
            if c + costs[p] <= B:
                init.append(p)
                c += costs[p]
    alloc = []
    c = Fraction(0)
    for p in rng.sample(range(m), m):
        if c + costs[p] <= B and rng.random() < 0.7:
            alloc.append(p)
            c += costs[p]
    k = rng.choice([1, 2, 2, 3, 3, 4])
    pool_calls = [c for c in CALLS if c not in SOLVER_CALLS] if rng.random() < 0.85 else CALLS
    calls = [rng.choice(pool_calls) for _ in range(k)]
    if rng.random() < 0.12:
        calls[rng.randrange(k)] = "priceable"
    if i % 7 == 0:
        calls[0] = rng.choice(["increase", "increase_irr", "increase_phragmen", "eff_support", "eff_supports"])
    # parameter dictionaries that carry keys colliding with the wrapper's own arguments / with what the wrapper
    # writes into its copy, in every combination with the explicit argument given or left to None
    def keyset(universe, collide=0.4):
        # `collide`: probability of the two keys that completion / the comparisons pass themselves (a collision makes
        # the rule call raise TypeError, which is legitimate but exercises little code)
        if rng.random() < 0.35:
            return []
        return sorted(k_ for k_ in universe
                      if rng.random() < (collide if k_ in ("initial_budget_allocation", "resoluteness") else 0.4))

    pkeys = keyset(PKEYS)
    if i % 3 == 0 and "initial_budget_allocation" not in pkeys:
        pkeys = sorted(pkeys + ["initial_budget_allocation"])
    if i % 3 == 0:
        calls[rng.randrange(k)] = rng.choice(WRAPPER_CALLS)
    ppkeys = keyset(PPKEYS)
    if i % 4 == 2:
        # the caller-owned initial_loads list of Phragmen: passed directly and through the wrappers' dictionaries
        j = rng.randrange(k)
        calls[j] = rng.choice(LOADS_CALLS)
        if calls[j] in ("increase_phragmen", "completion_phragmen") and "initial_loads" not in ppkeys:
            ppkeys = sorted(ppkeys + ["initial_loads"])
        if k > 1:
            calls[(j + 1) % k] = rng.choice(LOADS_CALLS + ["phragmen", "phragmen_irr"])
    # instance / project / ballot METADATA (all caller-owned, all snapshotted): categories and targets carried by the
    # projects, the sets declared at instance level -- which sometimes miss a category that a project carries --,
    # instance.meta, instance.project_meta, ballot.meta
    CATS = ["c0", "c1", "c2"]
    pcats = [sorted(rng.sample(CATS, rng.choice([0, 1, 1, 1, 2]))) for _ in range(m)]
    ptars = [sorted(rng.sample(["t0", "t1"], rng.choice([0, 1, 1, 2]))) for _ in range(m)]
    carried = sorted({c_ for cs in pcats for c_ in cs})
    mode = rng.randrange(6)
    if mode <= 1 or not carried:
        icats = carried
    elif mode <= 3:
        icats = [c_ for c_ in carried if c_ != rng.choice(carried)]      # one carried category is not declared
    elif mode == 4:
        icats = ["c0", "c1"]
    else:
        icats = sorted(set(carried) | {"c9"})
    meta = {"pcats": pcats, "ptars": ptars, "icats": icats,
            "itars": sorted(rng.sample(["t0", "t1", "t2"], rng.randrange(0, 4)))}
    if i % 5 == 1:
        calls[rng.randrange(k)] = "category"
    satname = rng.choice(APPROVAL_SATS)
    csatname = rng.choice(CARDINAL_SATS)
    exo = rng.choice([0.0, 0.2, 0.5])
    if i % 5 == 2:
        # payment functions / loads with tiny non-zero, negative, huge and oddly typed entries
        exo = 0.6
        calls[rng.randrange(k)] = rng.choice(["validate_price", "validate_price", "priceable_payments", "phragmen_loads"])
    # a cardinal profile sharing the instance: ballots that score only SOME projects (the cardinal JR checkers raise
    # KeyError on them -- an exception is no excuse for having modified the ballots), zero and negative scores
    cballots = []
    for _ in range(n):
        scored = rng.sample(range(m), rng.randrange(0, m + 1)) if rng.random() < 0.75 else list(range(m))
        cballots.append({str(j): pb.qs(rng.choice([0, 1, 1, 2, 3, Fraction(1, 2), -1 if rng.random() < 0.3 else 2]))
                         for j in sorted(scored)})
    if i % 5 == 4:
        calls[rng.randrange(k)] = rng.choice(["jr_cardinal", "jr_cardinal", "cohesive_cardinal", "cardinal_stats",
                                              "raisers"])
    if i % 5 == 3:
        calls[rng.randrange(k)] = rng.choice(["cohesive", "jr", "stats"])   # readers of the instance itself
    init_kind = rng.choice(INIT_KINDS)
    if init_kind != "list" and rng.random() < 0.7:
        calls[rng.randrange(k)] = rng.choice(ANALYTICS_CALLS)
        if k > 1 and rng.random() < 0.5:
            calls[rng.randrange(k)] = rng.choice(ANALYTICS_CALLS)
    pinit = []
    c = Fraction(0)
    for p in rng.sample(range(m), min(m, rng.randrange(0, 3))):
        if c + costs[p] <= B:
            pinit.append(p)
            c += costs[p]
    return {"costs": [pb.qs(c) for c in costs], "budget": pb.qs(B), "ballots": ballots,
            "multi": rng.random() < 0.4, "init": sorted(init), "alloc": sorted(alloc),
            "sat": satname, "csat": csatname, "calls": calls,
            "budget2": pb.qs(rng.choice([B * 2, B / 2, B + 1, max(costs) if max(costs) > 0 else B + 2])),
            "step": pb.qs(rng.choice([Fraction(1), Fraction(1, 2), B / 4])),
            "pkeys": pkeys, "plkeys": [sorted(keyset(PKEYS, 0.12) + (["voter_budget_increment"] if rng.random() < 0.15 else [])),
                       keyset(PKEYS, 0.12)], "ppkeys": ppkeys,
            "pinit": sorted(pinit), "pres": rng.random() < 0.5, "panalytics": rng.random() < 0.5,
            "init_kind": init_kind,
            "meta": meta,
            "loads": [pick(rng, exo) for _ in range(n)],
            "pay": [[pick(rng, exo) if rng.random() < 0.4 else "int:0" for _ in range(m)] for _ in range(n)],
            "vbudget": rng.choice([None, None, pick(rng, 0.5), "mpq:%s" % pb.qs(B / n), "float:%r" % float(B / n)]),
            "pinc": rng.choice(["int:1", "mpq:1/2", "int:2"]),
            "cballots": cballots, "cmulti": rng.random() < 0.25,
            "explicit_init": rng.random() < 0.5, "explicit_res": rng.choice([None, None, True, False]),
            "solver": (any(c in SOLVER_CALLS for c in calls) or satname in SOLVER_SATS
                       or csatname in SOLVER_SATS)}


# ------------------------------------------------------------------------------------------------
# snapshot
# ------------------------------------------------------------------------------------------------
MEMO_ATTRS = {"scores", "budget_over_sat_map"}


def snapshot(obj, seen=None):
    """canonical structural tree: ('q', n, d) | ('s', text) | (label, [children])"""
    import gmpy2

    if seen is None:
        seen = {}
    if obj is None:
        return ("s", "None")
    if isinstance(obj, bool):
        return ("s", "True" if obj else "False")
    # numbers: exact value AND type (a bare leaf is a Python int; every other numeric type wraps its exact value)
    if type(obj) is int:
        return ("q", obj, 1)
    if isinstance(obj, (int, Fraction)) or isinstance(obj, type(gmpy2.mpq(1))) or isinstance(obj, type(gmpy2.mpz(1))):
        f = pb.F(obj)
        return ("num:" + type(obj).__name__, [("q", f.numerator, f.denominator)])
    if isinstance(obj, float):
        if math.isinf(obj) or math.isnan(obj):
            return ("s", repr(obj))
        f = Fraction(obj)
        return ("num:float" + ("-0" if obj == 0 and math.copysign(1, obj) < 0 else ""),
                [("q", f.numerator, f.denominator)])
    if isinstance(obj, str):
        return ("s", "str:" + obj)
    if isinstance(obj, type) or callable(obj) and not hasattr(obj, "__dict__"):
        return ("s", "fn:" + getattr(obj, "__qualname__", repr(type(obj))))
    if callable(obj) and type(obj).__name__ in ("function", "builtin_function_or_method", "method"):
        return ("s", "fn:" + getattr(obj, "__qualname__", "?"))
    oid = id(obj)
    if oid in seen:
        return ("ref:%d" % seen[oid], [])
    seen[oid] = len(seen)
    tname = type(obj).__module__.split(".")[-1] + "." + type(obj).__name__
    kids = []
    d = getattr(obj, "__dict__", None)
    if isinstance(d, dict):
        for a in sorted(d):
            if a in MEMO_ATTRS:
                continue
            kids.append(("a:" + a, [snapshot(d[a], seen)]))
    if isinstance(obj, (list, tuple)):
        kids.append(("items", [snapshot(x, seen) for x in obj]))
    elif isinstance(obj, (set, frozenset)):
        # the iteration order of a set is not part of the caller's view; elements are identified by their own tree
        # (the projects of an Instance in full; inside ballots and as dictionary keys by name and cost -- they are the
        # instance's own Project objects, whose attributes are snapshotted there)
        full = type(obj).__name__ == "Instance"
        kids.append(("elems", sorted((snapshot(x, dict(seen)) if full else _key(x, seen) for x in obj), key=repr)))
    elif isinstance(obj, dict):
        items = [(_key(k_, seen), k_) for k_ in obj]
        items.sort(key=lambda t: repr(t[0]))
        kids.append(("entries", [("kv", [ks, snapshot(obj[k_], seen)]) for ks, k_ in items]))
    return (tname, kids)


def _key(x, seen):
    if type(x).__name__ == "Project":
        return ("proj", [("s", "str:" + str(x.name)), snapshot(x.cost)])
    return snapshot(x, dict(seen))


class Interner:
    def __init__(self):
        self.t = {}

    def __call__(self, s):
        if s not in self.t:
            self.t[s] = len(self.t)
        return self.t[s]


def enc(tree, it):
    """-> JSON-able: [tag, [kids]] | ["q", n, d]"""
    if tree[0] == "q":
        return ["q", tree[1], tree[2]]
    if tree[0] == "s":
        return [it(tree[1]), []]
    return [it(tree[0]), [enc(k, it) for k in tree[1]]]


# ------------------------------------------------------------------------------------------------
# every shipped satisfaction measure valid for approval ballots / for cardinal ballots (Relative_Cost_Sat and
# Additive_Cardinal_Relative_Sat normalise with the CBC solver: usual solver-fault discard)
APPROVAL_SATS = ["cost", "cost", "card", "card", "relcard", "relcard", "relcost_approx", "effort", "relcost",
                 "add_cost_sqrt", "add_cost_log", "cc", "cost_sqrt", "cost_log"]
CARDINAL_SATS = ["addcard"] * 9 + ["addcard_rel"]
SOLVER_SATS = {"relcost", "addcard_rel"}
CARDINAL_CALLS = {"jr_cardinal", "cohesive_cardinal", "cardinal_stats", "raisers"}


def _sat(name):
    import pabutools.election as el

    return {"cost": el.Cost_Sat, "card": el.Cardinality_Sat, "relcard": el.Relative_Cardinality_Sat,
            "relcost_approx": el.Relative_Cost_Approx_Normaliser_Sat, "effort": el.Effort_Sat,
            "relcost": el.Relative_Cost_Sat, "add_cost_sqrt": el.Additive_Cost_Sqrt_Sat,
            "add_cost_log": el.Additive_Cost_Log_Sat, "cc": el.CC_Sat, "cost_sqrt": el.Cost_Sqrt_Sat,
            "cost_log": el.Cost_Log_Sat, "addcard": el.Additive_Cardinal_Sat,
            "addcard_rel": el.Additive_Cardinal_Relative_Sat}[name]


BASE = ["inst", "prof", "alloc", "loads", "rule_seq", "rule_seq2", "pay", "cprof"]


def build(case, hook=None, measures=True):
    """Phase 1 builds the objects that exist before any library computation (instance, profiles, allocation, loads,
    rule sequences, payment functions) and hands them to `hook`; phase 2 builds what NEEDS the library: the shared
    satisfaction profile, initial allocations that are outcomes of earlier runs, and the dictionaries holding them.
    measures=False leaves phase 2 without any satisfaction measure (objects never used under the case's budget)."""
    """fresh shared objects: [instance, profile, sat_profile, init, params, alloc, params_list, details]"""
    from pabutools.rules import BudgetAllocation, method_of_equal_shares

    inst, projs = pb.make_instance(case["costs"], case["budget"])
    for j, p in enumerate(projs):
        p.categories = {"c%d" % (j % 2)}
    inst.categories = {"c0", "c1"}
    md = case.get("meta")
    if md:
        for j, p in enumerate(projs):
            p.categories = set(md["pcats"][j]) if j < len(md["pcats"]) else set()
            p.targets = set(md["ptars"][j]) if j < len(md["ptars"]) else set()
        inst.categories = set(md["icats"])
        inst.targets = set(md["itars"])
        inst.meta = {"description": "case", "num_projects": str(len(projs)), "budget": str(case["budget"])}
        inst.project_meta = {p: {"name": str(p.name), "cost": str(p.cost)} for p in projs}
    if md:
        from pabutools.election import ApprovalBallot, ApprovalProfile

        prof = ApprovalProfile([ApprovalBallot([projs[j] for j in b], name="v%d" % v, meta={"voter_id": str(v)})
                                for v, b in enumerate(case["ballots"])], instance=inst)
        if case["multi"]:
            prof = prof.as_multiprofile()
    else:
        prof = pb.make_approval_profile(inst, projs, case["ballots"], case["multi"])
    sat = _sat(case["sat"])
    from pabutools.rules import greedy_utilitarian_welfare as _g, sequential_phragmen as _p
    ld = case.get("loads", [])
    # one load per ballot object of the profile (len(prof): distinct ballots for a multiprofile)
    loads = [val(ld[j]) if j < len(ld) else 0 for j in range(len(prof))]
    rule_seq = [method_of_equal_shares, _g]
    rule_seq2 = [method_of_equal_shares, _p]
    cb = case.get("cballots") or [{} for _ in case["ballots"]]
    cprof = pb.make_cardinal_profile(inst, projs, cb, bool(case.get("cmulti")))
    pm = case.get("pay", [])
    pay = [{p: (val(pm[v][j]) if v < len(pm) and j < len(pm[v]) else 0) for j, p in enumerate(projs)}
           for v in range(len(prof))]
    alloc = [projs[j] for j in case["alloc"]]
    if hook is not None:
        hook({"inst": inst, "prof": prof, "alloc": alloc, "loads": loads, "rule_seq": rule_seq,
              "rule_seq2": rule_seq2, "pay": pay, "cprof": cprof})
    # ---- phase 2 ----
    satprof = prof.as_sat_profile(sat) if measures else None
    init = [projs[j] for j in case["init"]]
    ik = case.get("init_kind", "list")
    if not measures and ik in ("greedy_run", "mes_run"):
        ik = "list"
    if ik != "list":
        from pabutools.election import Instance
        from pabutools.rules import greedy_utilitarian_welfare
        from pabutools.rules.greedywelfare.greedywelfare_details import GreedyWelfareAllocationDetails
        from pabutools.rules.mes.mes_details import MESAllocationDetails

        half = Instance(projs, budget_limit=pb.num(pb.F(case["budget"]) / 2))
        if ik == "ba_plain":
            init = BudgetAllocation(init)
        elif ik == "greedy_run":      # first round of funding with half the budget, analytics requested
            init = greedy_utilitarian_welfare(half, prof, sat_class=sat, analytics=True)
        elif ik == "mes_run":
            init = method_of_equal_shares(half, prof, sat_class=sat, analytics=True)
        elif ik == "manual_greedy":
            init = BudgetAllocation(init, details=GreedyWelfareAllocationDetails())
        elif ik == "manual_mes":
            init = BudgetAllocation(init, details=MESAllocationDetails([1 for _ in case["ballots"]]))
    from pabutools.tiebreaking import lexico_tie_breaking

    def mk(keys):
        d = {"sat_class": sat}
        for k_ in keys:
            if k_ == "initial_budget_allocation":
                d[k_] = [projs[j] for j in case.get("pinit", [])]
            elif k_ == "resoluteness":
                d[k_] = bool(case.get("pres", True))
            elif k_ == "tie_breaking":
                d[k_] = lexico_tie_breaking
            elif k_ == "analytics":
                d[k_] = bool(case.get("panalytics", False))
            elif k_ == "sat_profile" and measures:
                d.pop("sat_class", None)
                d[k_] = satprof
            elif k_ == "voter_budget_increment":
                d[k_] = val(case.get("pinc", "int:1"))
            elif k_ == "initial_loads":
                d[k_] = loads
        return d

    params = mk(case.get("pkeys", []))
    plk = case.get("plkeys", [[], []])
    params_list = [mk(plk[0]), mk(plk[1])]
    pparams = mk(case.get("ppkeys", []))
    pparams.pop("sat_class", None)
    return {"inst": inst, "projs": projs, "prof": prof, "satprof": satprof, "init": init, "params": params,
            "alloc": alloc, "params_list": params_list, "pparams": pparams, "loads": loads, "rule_seq": rule_seq,
            "rule_seq2": rule_seq2, "pay": pay, "cprof": cprof, "sat": sat, "csat": _sat(case.get("csat", "addcard"))}


SHARED = ["inst", "prof", "satprof", "init", "params", "alloc", "params_list", "pparams", "loads", "rule_seq",
          "rule_seq2", "pay", "cprof"]


def ans(x):
    """canonical answer tree of a return value (allocations as sorted name lists)"""
    from pabutools.election.instance import Project

    def conv(v):
        if isinstance(v, Project):
            return ("s", "proj:" + str(v.name))
        if isinstance(v, dict):
            return ("dict", sorted((("kv", [conv(k), conv(val)]) for k, val in v.items()), key=repr))
        if isinstance(v, (list, tuple)):
            items = [conv(y) for y in v]
            if all(isinstance(y, Project) for y in v):
                items = sorted(items, key=repr)
            return ("list", items)
        if isinstance(v, (set, frozenset)):
            return ("set", sorted((conv(y) for y in v), key=repr))
        if hasattr(v, "__dict__") and not callable(v):
            return (type(v).__name__, [("a:" + a, [conv(getattr(v, a))]) for a in sorted(vars(v))
                                       if a not in ("details",)])
        return snapshot(v)
    return conv(x)


def _try(f, *a, **k):
    """the answer of a call that raises is the class of its exception (the snapshot oracle applies all the same)"""
    try:
        r = f(*a, **k)
        return list(r) if hasattr(r, "__next__") else r
    except Exception as e:  # noqa
        return "raised " + type(e).__name__


def _guarded(f, *a):
    """category_proportionality rejects degenerate inputs (no ballot, zero-cost allocation) by raising: the kind of
    exception is then the answer (the property is about the arguments, which are snapshotted all the same)"""
    try:
        return f(*a)
    except (ValueError, ZeroDivisionError, KeyError) as e:
        return "raised " + type(e).__name__


def do_call(name, o, case):
    """runs one public entry point on the objects o; returns its answer"""
    import pabutools.analysis as an
    from pabutools.analysis import justifiedrepresentation as jr, cohesiveness as coh
    from pabutools.rules import (greedy_utilitarian_welfare, max_additive_utilitarian_welfare, method_of_equal_shares,
                                 sequential_phragmen, completion_by_rule_combination, exhaustion_by_budget_increase,
                                 popularity_comparison, social_welfare_comparison, MaxAddUtilWelfareAlgo)
    from pabutools.analysis.profileproperties import votes_count_by_project

    inst, prof, satprof, init, params, alloc, plist, sat = (o["inst"], o["prof"], o["satprof"], o["init"], o["params"],
                                                            o["alloc"], o["params_list"], o["sat"])
    step = pb.num(case["step"])
    pparams = o["pparams"]
    xi = init if case.get("explicit_init", True) else None        # explicit initial_budget_allocation or None
    xr = {} if case.get("explicit_res") is None else {"resoluteness": bool(case["explicit_res"])}

    def direct(rule, prm, **explicit):
        # a direct call of a rule with the caller's dictionary: rule(inst, prof, **prm) -- explicit keyword
        # arguments are only added where the dictionary does not carry the key itself
        kw = {k_: v for k_, v in explicit.items() if k_ not in prm}
        return rule(inst, prof, **kw, **prm)

    if name == "greedy":
        return direct(greedy_utilitarian_welfare, params, initial_budget_allocation=init)
    if name == "greedy_satprof":
        return greedy_utilitarian_welfare(inst, prof, sat_profile=satprof, is_sat_additive=True,
                                          initial_budget_allocation=init)
    if name == "maxwelfare":
        return direct(max_additive_utilitarian_welfare, params, initial_budget_allocation=init,
                      inner_algo=MaxAddUtilWelfareAlgo.PRIMAL_DUAL)
    if name == "mes":
        return direct(method_of_equal_shares, params, initial_budget_allocation=init)
    if name == "mes_satprof":
        return method_of_equal_shares(inst, prof, sat_profile=satprof, initial_budget_allocation=init)
    if name == "greedy_analytics":
        r = greedy_utilitarian_welfare(inst, prof, sat_class=sat, initial_budget_allocation=init, analytics=True)
        return [r, snapshot(r.details)]
    if name == "mes_analytics":
        r = method_of_equal_shares(inst, prof, sat_class=sat, initial_budget_allocation=init, analytics=True)
        return [r, snapshot(r.details)]
    if name in ("mes_skipped", "mes_skipped_plain"):
        # skipped_project with analytics (effective support recorded in the rule's OWN details) and without (the
        # allocation built by the rule then inherits the details object of the initial allocation by reference)
        cand = [p for p in o["projs"] if p not in init and p.cost > 0 and any(p in b for b in prof)]
        if not cand:
            return None
        r = method_of_equal_shares(inst, prof, sat_class=sat, initial_budget_allocation=init,
                                   analytics=(name == "mes_skipped"), skipped_project=cand[0])
        return [r, snapshot(r.details) if name == "mes_skipped" else None]
    if name == "mes_irr":
        return direct(method_of_equal_shares, params, initial_budget_allocation=init, resoluteness=False)
    if name == "mes_iter":
        return method_of_equal_shares(inst, prof, sat_profile=satprof, initial_budget_allocation=init,
                                      voter_budget_increment=step)
    if name == "phragmen":
        return direct(sequential_phragmen, pparams, initial_budget_allocation=init)
    if name == "phragmen_irr":
        return direct(sequential_phragmen, pparams, initial_budget_allocation=init, resoluteness=False)
    if name == "phragmen_loads":
        return direct(sequential_phragmen, pparams, initial_budget_allocation=init, initial_loads=o["loads"])
    if name == "phragmen_loads_irr":
        return direct(sequential_phragmen, pparams, initial_budget_allocation=init, initial_loads=o["loads"],
                      resoluteness=False)
    if name == "completion_phragmen":
        # Equal Shares completed by Phragmen, whose dictionary may carry the caller's initial_loads
        pp = [plist[0], {k_: v for k_, v in pparams.items() if k_ in ("tie_breaking", "initial_loads")}]
        return completion_by_rule_combination(inst, prof, o["rule_seq2"], pp, initial_budget_allocation=xi, **xr)
    if name == "completion":
        return completion_by_rule_combination(inst, prof, o["rule_seq"], plist,
                                              initial_budget_allocation=xi, **xr)
    if name == "completion_irr":
        return completion_by_rule_combination(inst, prof, o["rule_seq"], plist,
                                              initial_budget_allocation=xi, resoluteness=False)
    if name == "increase":
        return exhaustion_by_budget_increase(inst, prof, method_of_equal_shares, params, initial_budget_allocation=xi,
                                             budget_step=step, **xr)
    if name == "increase_irr":
        return exhaustion_by_budget_increase(inst, prof, method_of_equal_shares, params, initial_budget_allocation=xi,
                                             budget_step=step, resoluteness=False)
    if name == "increase_phragmen":
        return exhaustion_by_budget_increase(inst, prof, sequential_phragmen, pparams, initial_budget_allocation=xi,
                                             budget_step=step, exhaustive_stop=False,
                                             budget_bound=inst.budget_limit + 3 * step, **xr)
    if name == "popularity":
        return popularity_comparison(inst, prof, sat, o["rule_seq"], plist,
                                     initial_budget_allocation=xi)
    if name == "swc":
        return social_welfare_comparison(inst, prof, sat, o["rule_seq"], plist,
                                         initial_budget_allocation=xi)
    if name == "satprofile":
        # every way of building measures: as_sat_profile, the profile classes' constructors, the class itself
        from pabutools.election import SatisfactionProfile, SatisfactionMultiProfile

        sp = prof.as_sat_profile(sat)
        if case["multi"]:
            sp2 = SatisfactionMultiProfile(instance=inst, multiprofile=prof, sat_class=sat)
        else:
            sp2 = SatisfactionProfile(instance=inst, profile=prof, sat_class=sat)
        return [sp.total_satisfaction(alloc), [s.sat(alloc) for s in sp], len(sp),
                _try(lambda: sorted(pb.qs(s.sat(alloc)) for s in sp2)), _try(sp2.total_satisfaction, alloc),
                _try(lambda: [sat(inst, prof, b).sat(alloc) for b in prof]),
                _try(lambda: [sat(inst, prof, b).sat_project(p) for b in prof for p in o["projs"]])]
    if name == "reuse_probe":
        # the SAME profile / ballots / allocation objects under ANOTHER budget limit (a deep copy of the instance)
        from copy import deepcopy
        from pabutools.election import SatisfactionProfile, SatisfactionMultiProfile

        inst2 = deepcopy(inst)
        inst2.budget_limit = pb.num(case.get("budget2") or pb.qs(pb.F(case["budget"]) * 2))
        cprof, csat = o["cprof"], o["csat"]

        def sp2():
            if case["multi"]:
                return SatisfactionMultiProfile(instance=inst2, multiprofile=prof, sat_class=sat)
            return SatisfactionProfile(instance=inst2, profile=prof, sat_class=sat)
        return [_try(lambda: [s.sat(alloc) for s in sp2()]),
                _try(lambda: [sat(inst2, prof, b).sat(alloc) for b in prof]),
                _try(lambda: [sat(inst2, prof, b).sat_project(p) for b in prof for p in o["projs"]]),
                _try(greedy_utilitarian_welfare, inst2, prof, sat_class=sat),
                _try(method_of_equal_shares, inst2, prof, sat_class=sat),
                _try(an.avg_satisfaction, inst2, prof, alloc, sat),
                _try(lambda: [csat(inst2, cprof, b).sat(alloc) for b in cprof])]
    if name == "sat_calls":
        return [[s.sat(alloc) for s in satprof], [s.sat_project(p) for s in satprof for p in o["projs"]],
                satprof.total_satisfaction(alloc)]
    if name == "stats":
        return [an.sum_project_cost(inst), an.funding_scarcity(inst), an.avg_project_cost(inst),
                an.median_project_cost(inst), an.avg_ballot_length(inst, prof), an.median_ballot_length(inst, prof),
                an.avg_ballot_cost(inst, prof), an.avg_approval_score(inst, prof),
                an.median_approval_score(inst, prof), an.avg_satisfaction(inst, prof, alloc, sat),
                an.gini_coefficient_of_satisfaction(inst, prof, alloc, sat),
                an.percent_non_empty_handed(inst, prof, alloc),
                an.satisfaction_histogram(inst, prof, alloc, sat, max_satisfaction=10, num_bins=4),
                votes_count_by_project(prof),
                _guarded(an.category_proportionality, inst, prof, alloc)]
    if name == "jr":
        return [jr.is_EJR_approval(inst, prof, sat, alloc), jr.is_PJR_approval(inst, prof, sat, alloc),
                jr.is_EJR_one_approval(inst, prof, sat, alloc), jr.is_strong_EJR_approval(inst, prof, sat, alloc),
                jr.is_PJR_any_approval(inst, prof, sat, alloc)]
    if name in ("jr_cardinal", "cohesive_cardinal", "cardinal_stats", "raisers"):
        from pabutools.election import Additive_Cardinal_Sat, Cost_Sat, Cardinality_Sat
        from pabutools.analysis.profileproperties import votes_count_by_project as vcp

        cprof, csat = o["cprof"], o["csat"]
        if name == "jr_cardinal":
            return [_try(f, inst, cprof, alloc) for f in (
                jr.is_strong_EJR_cardinal, jr.is_EJR_cardinal, jr.is_EJR_any_cardinal, jr.is_EJR_one_cardinal,
                jr.is_PJR_cardinal, jr.is_PJR_any_cardinal, jr.is_PJR_one_cardinal)] + [
                _try(jr.is_in_core, inst, cprof, csat, alloc)]
        if name == "cohesive_cardinal":
            return [_try(lambda: len(list(coh.cohesive_groups(inst, cprof)))),
                    _try(lambda: len(list(coh.cohesive_groups(inst, cprof, alloc))))]
        if name == "cardinal_stats":
            return [_try(an.avg_total_score, inst, cprof), _try(an.median_total_score, inst, cprof),
                    _try(an.avg_ballot_length, inst, cprof), _try(an.avg_ballot_cost, inst, cprof), _try(vcp, cprof),
                    _try(an.avg_satisfaction, inst, cprof, alloc, csat),
                    _try(an.gini_coefficient_of_satisfaction, inst, cprof, alloc, csat),
                    _try(lambda: [csat(inst, cprof, b_).sat(alloc) for b_ in cprof]),
                    _try(jr.is_EJR_cardinal, inst, cprof, alloc, csat),
                    _try(an.percent_non_empty_handed, inst, cprof, alloc),
                    _try(greedy_utilitarian_welfare, inst, cprof, sat_class=csat,
                         initial_budget_allocation=init),
                    _try(method_of_equal_shares, inst, cprof, sat_class=csat,
                         initial_budget_allocation=init)]
        # inputs on which the call is expected to raise: wrong ballot type for a measure / a rule, infeasible initial
        # allocation, rule_params of the wrong length, colliding resoluteness
        everything = list(o["projs"])
        return [_try(lambda: [s_.sat(alloc) for s_ in cprof.as_sat_profile(Cardinality_Sat)]),
                _try(lambda: [s_.sat(alloc) for s_ in prof.as_sat_profile(Additive_Cardinal_Sat)]),
                _try(sequential_phragmen, inst, cprof, initial_budget_allocation=init),
                _try(max_additive_utilitarian_welfare, inst, prof, sat_class=sat, initial_budget_allocation=everything,
                     inner_algo=MaxAddUtilWelfareAlgo.PRIMAL_DUAL),
                _try(greedy_utilitarian_welfare, inst, prof, initial_budget_allocation=everything, sat_class=sat),
                _try(method_of_equal_shares, inst, prof, initial_budget_allocation=everything, sat_class=sat),
                _try(completion_by_rule_combination, inst, prof, o["rule_seq"], plist[:1], initial_budget_allocation=xi),
                _try(popularity_comparison, inst, prof, sat, o["rule_seq"], plist[:1], initial_budget_allocation=xi),
                _try(social_welfare_comparison, inst, prof, sat, o["rule_seq"], plist[:1]),
                _try(completion_by_rule_combination, inst, prof, o["rule_seq"],
                     [{"sat_class": sat, "resoluteness": False}, {"sat_class": sat}], resoluteness=True),
                _try(greedy_utilitarian_welfare, inst, prof),
                _try(an.gini_coefficient_of_satisfaction, inst, cprof, alloc, Additive_Cardinal_Sat),
                _try(an.validate_price_system, inst, prof, alloc, 1, o["pay"][:1])]
    if name == "category":
        return [_guarded(an.category_proportionality, inst, prof, alloc),
                _guarded(an.category_proportionality, inst, prof, list(inst))]
    if name == "cohesive":
        return [len(list(coh.cohesive_groups(inst, prof))), len(list(coh.cohesive_groups(inst, prof, alloc)))]
    if name == "priceable":
        r = an.priceable(inst, prof, alloc)
        return bool(r.validate()) if r.validate() is not None else None
    if name == "validate_price":
        nv = max(1, prof.num_ballots())
        vb = val(case["vbudget"]) if case.get("vbudget") else pb.num(pb.F(case["budget"]) / nv)
        return an.validate_price_system(inst, prof, alloc, vb, o["pay"])
    if name == "priceable_payments":
        nv = max(1, prof.num_ballots())
        vb = val(case["vbudget"]) if case.get("vbudget") else pb.num(pb.F(case["budget"]) / nv)
        r = an.priceable(inst, prof, alloc, vb, o["pay"])
        return str(r.status)
    if name == "project_loss":
        kw = dict(params)
        kw.update({"analytics": True, "resoluteness": True})
        kw.pop("skipped_project", None)
        det = method_of_equal_shares(inst, prof, **kw).details
        before = snapshot(det)
        r = an.calculate_project_loss(det)
        return [[(str(x.name), x.supporters_budget if hasattr(x, "supporters_budget") else None,
                  sorted((str(k.name), v) for k, v in x.budget_lost.items())) for x in r],
                ("details_unchanged", snapshot(det) == before)]
    if name == "eff_support":
        sup = [p for p in o["projs"] if any(p in b for b in prof) and p.cost > 0]
        if not sup:
            return None
        return an.calculate_effective_support(inst, prof, sup[0], sup[0] in alloc, params)
    if name == "eff_supports":
        # (the helper raises StopIteration for an unsupported / zero-cost project: only elections in which every
        #  project is supported and has a positive cost are asked)
        if not all(any(p in b for b in prof) and p.cost > 0 for p in o["projs"]):
            return None
        r = an.calculate_effective_supports(inst, prof, alloc, params)
        return sorted((str(k.name), v) for k, v in r.items())
    raise KeyError(name)


def impl(case):
    if case.get("solver"):
        pb.install_solver_guard()
        pb.solver_reset()
    it = Interner()
    base = {}
    o = build(case, hook=lambda b: base.update({k: snapshot(b[k]) for k in BASE}))
    # implicit first call "(setup)": building the shared satisfaction profile and the initial allocations that are
    # outcomes of earlier runs must not have touched the objects that existed before (snapshotted by the hook)
    after_setup = [snapshot(o[k]) for k in SHARED]
    pre = [enc(base[k] if k in BASE else t, it) for k, t in zip(SHARED, after_setup)]
    posts = [[enc(t, it) for t in after_setup]]
    shared_ans, fresh_ans = [enc(("s", "setup"), it)], [enc(("s", "setup"), it)]
    raised = []

    def attempt(name, objs):
        # an exception of a call is part of its answer (a call that raises only because an earlier call polluted
        # a shared dictionary must still be followed by the snapshot that shows the pollution)
        try:
            return ans(do_call(name, objs, case))
        except Exception as e:  # noqa
            raised.append(name + ": " + type(e).__name__ + ": " + str(e)[:120])
            return ("s", "raised " + type(e).__name__)

    calls_eff = list(case["calls"]) + ["reuse_probe"]
    for name in calls_eff:
        shared_ans.append(enc(attempt(name, o), it))
        posts.append([enc(snapshot(o[k]), it) for k in SHARED])
    for name in calls_eff:
        # the probe's fresh objects have never been used under the case's own budget limit
        fresh_ans.append(enc(attempt(name, build(case, measures=(name != "reuse_probe"))), it))
    calls_eff = ["(setup)"] + calls_eff
    out = {"calls_eff": calls_eff, "pre": pre, "posts": posts, "shared": shared_ans, "fresh": fresh_ans, "raised": raised,
           "changed": [[k for k, a, b in zip(SHARED, pre, p) if a != b] for p in posts]}
    if case.get("solver"):
        st = pb.solver_state()
        if st["faults"]:
            out["solver_fault"] = st["last_fault"]
    return out


# ------------------------------------------------------------------------------------------------
def tree(t):
    if t[0] == "q":
        return "(Lq %s)" % q([t[1], t[2]])
    return "(T %d %s)" % (t[0], lst(t[1], tree))


def coq_case(case, o):
    """Every distinct tree of the case is written once and let-bound; a post-snapshot (fresh answer) that is
    structurally equal to the pre-snapshot (shared answer) would be serialised to the very same text anyway, so Coq
    still evaluates tree_eqb on the same two terms -- only the case file is a third of the size."""
    entries = lst([str(ENTRY[c]) for c in o.get("calls_eff", case["calls"])])
    names, binds = {}, []

    def ref(t):
        key = json.dumps(t)
        if key not in names:
            names[key] = "t%d" % len(names)
            binds.append("let %s := %s in" % (names[key], tree(t)))
        return names[key]

    pre = lst(o["pre"], ref)
    posts = lst([lst(p, ref) for p in o["posts"]])
    shared = lst(o["shared"], ref)
    fresh = lst(o["fresh"], ref)
    return "(%s mkCase (%s%%nat) %s %s %s %s)" % (" ".join(binds), entries, pre, posts, shared, fresh)


def nontrivial(case, o):
    if len(case["calls"]) >= 2:
        return [case["costs"], case["budget"], case["ballots"], case["calls"], case["init"], case["multi"]]
    return None


def stats(cases, obs):
    d = {"calls": {}, "sequence_length": {}, "multiprofile": 0, "init_nonempty": 0, "cases_with_solver": 0,
         "snapshot_nodes_mean": 0, "calls_that_raised": 0}
    tot = 0
    cnt = 0

    def size(t):
        return 1 if t[0] == "q" else 1 + sum(size(k) for k in t[1])

    for c, o in zip(cases, obs):
        if not isinstance(o, dict) or "pre" not in o:
            continue
        for name in c["calls"]:
            d["calls"][name] = d["calls"].get(name, 0) + 1
        k = str(len(c["calls"]))
        d["sequence_length"][k] = d["sequence_length"].get(k, 0) + 1
        d["multiprofile"] += bool(c["multi"])
        d["init_nonempty"] += bool(c["init"])
        d["cases_with_solver"] += bool(c.get("solver"))
        d["calls_that_raised"] += len(o.get("raised", []))
        d.setdefault("sat_class", {})
        d["sat_class"][c.get("sat", "?")] = d["sat_class"].get(c.get("sat", "?"), 0) + 1
        tot += sum(size(t) for t in o["pre"])
        cnt += 1
    d["snapshot_nodes_mean"] = round(tot / max(cnt, 1), 1)
    return d


def shrink(case):
    if len(case["calls"]) > 1:
        for j in range(len(case["calls"])):
            c = dict(case)
            c["calls"] = case["calls"][:j] + case["calls"][j + 1:]
            c["solver"] = any(x in SOLVER_CALLS for x in c["calls"])
            yield c
    for j in range(len(case["ballots"])):
        if len(case["ballots"]) > 1:
            c = dict(case)
            c["ballots"] = case["ballots"][:j] + case["ballots"][j + 1:]
            yield c
    m = len(case["costs"])
    for j in range(m):
        if m > 1:
            c = dict(case)
            ren = lambda W: [x - (x > j) for x in W if x != j]
            c["costs"] = case["costs"][:j] + case["costs"][j + 1:]
            c["ballots"] = [ren(b) for b in case["ballots"]]
            c["init"] = ren(case["init"])
            c["alloc"] = ren(case["alloc"])
            yield c
    if case["multi"]:
        c = dict(case)
        c["multi"] = False
        yield c


def describe(case, o, code):
    return {"objects": SHARED, "changed_after_each_call": o.get("changed"),
            "answers_equal": [a == b for a, b in zip(o.get("shared", []), o.get("fresh", []))]}
