"""C17 -- election containers keep their type, metadata and ballot validation."""
from __future__ import annotations

from .. import core
from ..core import lst, natl, boolc, pair
from . import c17_exec as X

ID = "C17"
ORACLE = "Oracle.C17"
PROPS = "Props/C17.v"
LEVEL = "proof"
SHARD = 150
COQ_PRELUDE = "From Coq Require Import String ZArith.\n"
CODES = {
    1: ("oracle", "the constructor lost an attribute it was given (or the start object is not of its class)"),
    2: ("oracle", "a derived object that the API promises to be of the class came back as a bare builtin / other class"),
    3: ("oracle", "a derived object lost or changed an election attribute"),
    4: ("oracle", "the object itself changed class or attributes under an in-place / mutating operation"),
    5: ("oracle", "a profile with ballot validation enabled contains a wrong-typed ballot"),
    6: ("oracle", "copy / deepcopy / pickle round trip / construction from the object raised"),
    7: ("oracle", "a derived object shares its attribute dictionary or its payload with the object it was derived from "
                  "(rebinding an attribute / growing one of them changes the other)"),
    10: ("model", "kind of outcome (raised / new object / same object / None / bare builtin) differs from Model/Containers.v"),
    11: ("model", "the new object (class, attributes, ballots) differs from Model/Containers.v"),
    12: ("model", "the current object after the operation differs from Model/Containers.v"),
    core.RAISED: ("oracle", "building the start objects raised"),
}
RULE = ("start object of one of the 20 container classes (Instance, 4 ballot classes, 4 frozen ballot classes, 4 list "
        "profiles, 4 multiprofiles, SatisfactionProfile, SatisfactionMultiProfile, BudgetAllocation) with random "
        "non-default election attributes (validation on/off, ballot_type default/base, legal limits, names, metas...), "
        "a second operand of the same class with other attributes, then 1..6 operations from the public set/list/dict/"
        "Counter API of its base type: operators with an object or a bare builtin on either side, in-place operators, "
        "named set methods, slicing, *, copy(), copy.copy, deepcopy, pickle round trip, construction from the object, "
        "as_multiprofile, construction of every OTHER class of the family that accepts the object (all 44 accepted ballot class "
        "pairs incl. frozen<->mutable and cross-kind, the 8 list profile <-> multiprofile pairs; each pair enumerated at the head of "
        "every run), construction from the bare builtin copy, satisfaction profiles of profiles, remove_satisfied, "
        "attribute-neutral builtin mutators and clear for every class; after EVERY derivation an aliasing probe rebinds "
        "each attribute of the derived object (and of the source) to a fresh value and grows each payload, and checks "
        "the other object is unchanged; and the mutators append/insert/extend/+=/item and slice assignment/setdefault/update with "
        "right-typed, sub-typed, wrong-typed, frozen-vs-mutable and non-ballot elements; construction from the object "
        "with an explicit ballot_validation flag (off->on, on->off) from unvalidated profiles that already hold "
        "foreign ballots; the linked Instance has 0/1/3 projects at creation and is emptied / refilled in place "
        "between operations (instance link compared by IDENTITY, equal copy only after deepcopy/pickle); empty start "
        "objects and operands of every class; falsy non-default attribute values (0 limits, validation False); "
        "non-trivial = distinct (class, attributes, op sequence) in which some operation produced a new family object "
        "or changed the object")
ASSUMPTIONS = [
    "hand-written Gallina model of the CPython data model as used by the container classes (which dunder a syntax "
    "form reaches, reflected-operator priority for subclasses, what the builtin returns) tied to the code by "
    "differential execution only",
    "the _wrap_methods tables are read from the source on every run (Generated/Anchors.v)",
    "copy.copy/deepcopy/pickle/constructor-from-object are modelled as attribute preserving (not derived from the source)",
]
TRUSTED = ["Model/Containers.v mirrors instance.py, ballot/*.py, profile/*.py, satisfactionprofile.py, "
           "budgetallocation.py (modelled, not verified)", "harness/vharness/props/c17_exec.py (op executor, attribute ids)"]
EXPLANATION = ("Theorems: every operation the API promises to hand back as an object of the class is re-wrapped according to "
               "the tables read from the source, so for op sequences of ANY length every derived object and the object "
               "itself keep class tag and all attribute ids; with validation on no reachable profile state holds a ballot "
               "outside ballot_type; constructors keep what they are given.  Tie: real objects after every op of random "
               "sequences compared in Coq with the property and with the model.")

KINDS = ["Approval", "Cardinal", "Cumulative", "Ordinal"]
NPOOL = {"budget_limit": 2, "categories": 2, "targets": 1, "file_path": 1, "file_name": 1, "parsing_errors": 1,
         "meta": 2, "project_meta": 1, "name": 2, "ballot_validation": 1, "ballot_type": 1, "instance": 1,
         "legal_min_length": 2, "legal_max_length": 2, "legal_min_cost": 2, "legal_max_cost": 1,
         "legal_min_score": 1, "legal_max_score": 1, "legal_min_total_score": 2, "legal_max_total_score": 1,
         "sat_class": 2, "details": 1}
WEIGHTED = (["Instance"] * 3 + X.CLASSES[2:6] * 2 + X.CLASSES[6:10] + X.CLASSES[10:14] * 5 + X.CLASSES[14:18] * 5
            + ["SatisfactionProfile", "SatisfactionMultiProfile", "BudgetAllocation"] * 2)


def budget(tier):
    return 1500 if tier == "quick" else 20000


def is_prof(c):
    return "Profile" in c and "Satisfaction" not in c


def elt_tags(clsname):
    kind = clsname.replace("MultiProfile", "").replace("Profile", "")
    k = KINDS.index(kind)
    others = [i for i in range(4) if i != k]
    t = [2 + k] * 3 + [2 + o for o in others]
    if "Multi" in clsname:
        return [x + 4 for x in t] + [2 + k, 0]
    return t + [6 + k, 0]


def accepts(clsname, bt, t):
    c = X.TAG[clsname]
    if 10 <= c <= 13:
        return (t == c - 8 or (c == 11 and t == 4)) if bt == 0 else 2 <= t <= 5
    return (t == c - 8) if bt == 0 else 6 <= t <= 9


def base_of(c):
    if c in ("Instance", "ApprovalBallot"):
        return "set"
    if c in ("CardinalBallot", "CumulativeBallot", "OrdinalBallot"):
        return "dict"
    if c in ("FrozenApprovalBallot", "FrozenOrdinalBallot"):
        return "tuple"
    if c.startswith("Frozen"):
        return "fdict"
    if c.endswith("MultiProfile"):
        return "counter"
    return "list"


COPY_OPS = [["copy"], ["ccopy"], ["deepcopy"], ["pickle"], ["ctor"]]
MUTATORS = {"Instance": ["add", "discard", "update"], "ApprovalBallot": ["add", "discard", "update"],
            "CardinalBallot": ["__setitem__", "setdefault", "update", "pop"],
            "CumulativeBallot": ["__setitem__", "setdefault", "update", "pop"],
            "OrdinalBallot": ["__setitem__", "setdefault", "update", "pop", "append"],
            "SatisfactionProfile": ["append", "extend", "insert"], "BudgetAllocation": ["append", "extend", "insert"],
            "SatisfactionMultiProfile": ["append", "update", "__setitem__"]}


def xctor_targets(c):
    """classes of the same family whose constructor accepts an object of class c (what HEAD accepts; see the model)"""
    t = X.TAG[c]
    if 2 <= t <= 9:
        maplike = t in (3, 4, 5, 7, 8)
        return [u for u in range(2, 10) if u != t and (maplike or u not in (3, 4, 7, 8))]
    if 10 <= t <= 13:
        return [t + 4]
    if 14 <= t <= 17:
        return [t - 4]
    # not generated (decided with the coordinator): cross-KIND profile construction and SatisfactionProfile(sat
    # multiprofile) are outside "construction from another object of its own class" -- HEAD inherits the foreign
    # ballot_type / drops limits resp. drops instance and sat_class there
    return []


def gen_op(rng, c, n):
    """one random operation for class c; n = current rough payload length"""
    b = base_of(c)
    r = rng.random()
    arg = rng.choice(["obj", "plain"])
    if r < 0.24:
        return rng.choice(COPY_OPS)
    if r < (0.36 if 2 <= X.TAG[c] <= 9 else 0.28):
        x = xctor_targets(c)
        if x and rng.random() < 0.75:
            return ["xctor", rng.choice(x)]
        return ["from_plain"]
    if is_prof(c):
        if r < 0.38:
            # construction from the object with an explicit validation flag (off->on and on->off transitions)
            return ["ctor_val", rng.choice([1, 1, 0])]
        if r < 0.45:
            # satisfaction profile of the profile: the method, and the constructors given profile= / multiprofile=
            return ["as_sat", rng.choice([0, 1, 1, 2])]
        if r < 0.51:
            # the linked instance is emptied (0, 2) / refilled (1) in place: an Instance without projects is falsy
            return ["inst_mut", rng.choice([0, 0, 1, 2])]
        if r < 0.54:
            return ["clear"]
    else:
        if r < 0.38 and c in MUTATORS:
            return ["mutate", rng.choice(MUTATORS[c])]
        if r < 0.43 and b != "tuple":
            return ["clear"]
        if r < 0.5 and c in ("SatisfactionProfile", "SatisfactionMultiProfile"):
            return ["remove_satisfied"] if rng.random() < 0.6 else ["inst_mut", rng.choice([0, 1, 2])]
    if b == "set":
        x = rng.random()
        if x < 0.35:
            return [rng.choice(["or", "and", "sub", "xor", "union", "intersection", "difference",
                                "symmetric_difference"]), arg]
        if x < 0.55:
            return [rng.choice(["ror", "rand", "rsub", "rxor"])]
        if x < 0.8:
            return [rng.choice(["ior", "iand", "isub", "ixor"]), arg]
        return [rng.choice(["update", "intersection_update", "difference_update", "symmetric_difference_update"]), arg]
    if b == "dict":
        return rng.choice([["or", arg], ["ror"], ["ior", arg], ["add", "obj"], ["reversed"], ["mul", 2]])
    if b == "tuple":
        return rng.choice([["add", "obj"], ["getslice", [0, 1]], ["mul", 2], ["copy"]])
    if b == "fdict":
        return rng.choice([["or", "obj"], ["copy"], ["ror"]])
    sl = sorted([rng.randrange(0, n + 2), rng.randrange(0, n + 2)])
    if b == "list":
        generic = [["add", arg], ["mul", rng.choice([0, 1, 2])], ["rmul", rng.choice([0, 2])],
                   ["imul", rng.choice([0, 1, 2])], ["iadd", arg], ["getslice", sl], ["reversed"], ["reverse"]]
        if not is_prof(c) or rng.random() < 0.45:
            return rng.choice(generic)
        e = rng.randrange(0, 8)
        es = [rng.randrange(0, 8) if rng.random() < 0.3 else rng.randrange(0, 3) for _ in range(rng.randrange(0, 4))]
        return rng.choice([["append", e], ["insert", [rng.randrange(0, n + 2), e]], ["extend", es], ["iadd_els", es],
                           ["setitem", [rng.randrange(0, n + 1), e]], ["setslice", [sl[0], sl[1], es]],
                           ["as_multiprofile"], ["pop"]])
    # counter
    generic = [[rng.choice(["add", "sub", "or", "and"]), arg], [rng.choice(["iadd", "isub", "ior", "iand"]), arg],
               ["ror"], ["mul", 2], ["imul", 2]]
    if not is_prof(c) or rng.random() < 0.45:
        return rng.choice(generic)
    e = rng.randrange(0, 8)
    es = [rng.randrange(0, 6) if rng.random() < 0.3 else rng.randrange(0, 3) for _ in range(rng.randrange(0, 4))]
    return rng.choice([["append", e], ["extend", es], ["mp_setitem", [e, rng.randrange(1, 4)]],
                       ["setdefault", [e, rng.randrange(1, 3)]], ["update_iter", es],
                       ["update_map", [[x, rng.randrange(1, 3)] for x in dict.fromkeys(es)]]])


def gen_attrs(rng, c):
    mode = rng.random()
    out = []
    for a in X.ATTRS[c]:
        n = NPOOL[a]
        if a == "ballot_validation":
            out.append(0 if rng.random() < 0.7 else 1)
        elif mode < 0.15:
            out.append(0)
        elif mode < 0.35:
            out.append(rng.randrange(1, n + 1))
        else:
            out.append(rng.randrange(0, n + 1))
    return out


def gen_payload(rng, c, attrs):
    tags = elt_tags(c)
    val_on = attrs[1] == 0
    ok = [i for i in range(6) if (not val_on) or accepts(c, attrs[2], tags[i])]
    if rng.random() < 0.12:
        return []
    wrong = [i for i in ok if i >= 3]
    if "Multi" in c:
        ids = set(rng.choice(ok) for _ in range(rng.randrange(0, 4))) if ok else set()
        if wrong and rng.random() < 0.5:
            ids.add(rng.choice(wrong))        # a foreign ballot that slipped into an unvalidated profile
        return [[i, rng.randrange(1, 4)] for i in sorted(ids)]
    out = [rng.choice(ok) for _ in range(rng.randrange(0, 5))] if ok else []
    if wrong and rng.random() < 0.5:
        out.insert(rng.randrange(0, len(out) + 1), rng.choice(wrong))
    return out


# every (source class, target class) pair of family-internal construction, enumerated at the head of every run
XPAIRS = [(src, tgt) for src in X.CLASSES[2:18] for tgt in xctor_targets(src)]


def gen(rng, i, tier):
    if i < len(XPAIRS):
        src, tgt = XPAIRS[i]
        attrs = [rng.randrange(1, NPOOL[a] + 1) for a in X.ATTRS[src]]
        start = {"cls": src, "attrs": attrs, "other_attrs": gen_attrs(rng, src), "empty": False, "other_empty": False}
        if is_prof(src):
            attrs[1] = rng.choice([0, 1])
            attrs[2] = rng.choice([0, 1])
            start["payload"] = [] if "Multi" not in src and rng.random() < 0.7 else gen_payload(rng, src, attrs)
            start["other_payload"] = gen_payload(rng, src, start["other_attrs"])
        ops = [["xctor", tgt]] + [gen_op(rng, src, 2) for _ in range(rng.choice([0, 1, 2]))] + [["xctor", tgt]]
        return {"inst_attrs": [rng.choice([1, 2])] + gen_attrs(rng, "Instance")[1:], "inst_nproj": rng.choice([0, 3]),
                "start": start, "ops": ops}
    c = rng.choice(WEIGHTED)
    start = {"cls": c, "attrs": gen_attrs(rng, c), "other_attrs": gen_attrs(rng, c)}
    n = 2
    if is_prof(c):
        start["payload"] = gen_payload(rng, c, start["attrs"])
        start["other_payload"] = gen_payload(rng, c, start["other_attrs"])
        n = len(start["payload"])
    else:
        start["empty"] = rng.random() < 0.25          # empty Instance / ballot / allocation / satisfaction profile
        start["other_empty"] = rng.random() < 0.25
    ops = [gen_op(rng, c, n) for _ in range(rng.choice([1, 2, 3, 4, 5, 6, 6]))]
    inst_attrs = gen_attrs(rng, "Instance")
    if inst_attrs[0] == 0:
        inst_attrs[0] = rng.choice([1, 2])              # the linked instance is never equal to a fresh Instance()
    return {"inst_attrs": inst_attrs, "inst_nproj": rng.choice([0, 0, 3, 3, 3, 1]), "start": start, "ops": ops}


def impl(case):
    return X.run_case(case)


# ------------------------------------------------------------------------------------------------
# Gallina rendering
# ------------------------------------------------------------------------------------------------
DUNDER = {"or": "__or__", "and": "__and__", "sub": "__sub__", "xor": "__xor__", "add": "__add__",
          "ror": "__ror__", "rand": "__rand__", "rsub": "__rsub__", "rxor": "__rxor__",
          "ior": "__ior__", "iand": "__iand__", "isub": "__isub__", "ixor": "__ixor__", "iadd": "__iadd__"}


def _z(n):
    return "(%d)%%Z" % int(n)


def _s(x):
    return '"%s"%%string' % x


def coq_op(op):
    n = op[0]
    a = op[1] if len(op) > 1 else None
    N = core.nat
    if n in ("copy", "ccopy", "deepcopy", "pickle", "ctor"):
        return {"copy": "OCopy", "ccopy": "OCCopy", "deepcopy": "ODeepcopy", "pickle": "OPickle", "ctor": "OCtor"}[n]
    if n in ("or", "and", "sub", "xor", "add"):
        return "OBin %s %s" % (_s(DUNDER[n]), boolc(a == "plain"))
    if n in ("union", "intersection", "difference", "symmetric_difference"):
        return "OBin %s %s" % (_s(n), boolc(a == "plain"))
    if n in ("ror", "rand", "rsub", "rxor"):
        return "ORefl %s" % _s(DUNDER[n])
    if n in ("ior", "iand", "isub", "ixor", "iadd"):
        return "OIBin %s %s" % (_s(DUNDER[n]), boolc(a == "plain"))
    if n in ("update", "intersection_update", "difference_update", "symmetric_difference_update"):
        return "OUpd %s %s" % (_s(n), boolc(a == "plain"))
    if n == "mul":
        return "OMul %s" % N(a)
    if n == "rmul":
        return "ORmul %s" % N(a)
    if n == "imul":
        return "OImul %s" % N(a)
    if n == "getslice":
        return "OSlice %s %s" % (N(a[0]), N(a[1]))
    if n == "reversed":
        return "OReversed"
    if n == "reverse":
        return "OReverse"
    if n == "append":
        return "OAppend %s" % N(a)
    if n == "insert":
        return "OInsert %s %s" % (N(a[0]), N(a[1]))
    if n == "extend":
        return "OExtend %s" % natl(a)
    if n == "iadd_els":
        return "OIaddEls %s" % natl(a)
    if n == "setitem":
        return "OSetitem %s %s" % (N(a[0]), N(a[1]))
    if n == "setslice":
        return "OSetslice %s %s %s" % (N(a[0]), N(a[1]), natl(a[2]))
    if n == "mp_setitem":
        return "OMpSetitem %s %s" % (N(a[0]), _z(a[1]))
    if n == "setdefault":
        return "OSetdefault %s %s" % (N(a[0]), _z(a[1]))
    if n == "update_iter":
        return "OUpdateIter %s" % natl(a)
    if n == "update_map":
        return "OUpdateMap %s" % lst([pair(core.nat(e), _z(k)) for e, k in a])
    if n == "as_multiprofile":
        return "OAsMulti"
    if n == "xctor":
        return "OXCtor %s" % N(a)
    if n == "from_plain":
        return "OFromPlain"
    if n == "ctor_val":
        return "OCtorVal %s" % boolc(bool(a))
    if n == "as_sat":
        return "OAsSat %s" % N(a)
    if n == "mutate":
        return "OMutate %s" % _s(a)
    if n == "clear":
        return "OClear"
    if n == "pop":
        return "OPop"
    if n == "remove_satisfied":
        return "ORemoveSat"
    if n == "inst_mut":
        return "OInstMut %s" % N(a)
    raise ValueError(op)


def coq_obj(st):
    if st is None:
        return "(mkObj 0%nat [] [])"
    return "(mkObj %s %s %s)" % (core.nat(st["cls"]), natl(st["attrs"]),
                                 lst([pair(core.nat(e), _z(k)) for e, k in st["payload"]]))


KIND = {"raise": 0, "new": 1, "same": 2, "none": 3, "plain": 4}


def coq_case(case, o):
    steps = lst(["mkStep %s %s %s %s" % (core.nat(KIND[s["kind"]]), coq_obj(s.get("res")), coq_obj(s["cur"]),
                                        boolc(bool(s.get("alias")))) for s in o["steps"]])
    return "(mkCase %s %s %s %s %s %s)" % (natl(o["elt_tags"]), natl(case["start"]["attrs"]), coq_obj(o["start"]),
                                            coq_obj(o["other"]), lst(case["ops"], coq_op), steps)


# ------------------------------------------------------------------------------------------------
# evidence
# ------------------------------------------------------------------------------------------------
def nontrivial(case, o):
    if not isinstance(o, dict) or "steps" not in o:
        return None
    prev = o["start"]
    hit = False
    for s in o["steps"]:
        if s["kind"] == "new" or s["cur"] != prev:
            hit = True
        prev = s["cur"]
    if hit:
        return [case["start"]["cls"], case["start"]["attrs"], case["start"].get("payload"), case["ops"]]
    return None


def stats(cases, obs):
    d = {"class": {}, "op": {}, "outcome": {}, "seq_len": {}, "validated_start": 0,
         "mutation_refused_on_validated_profile": 0, "mutation_accepted": 0, "nondefault_attr_share": 0,
         "promised_derivations_observed": 0, "linked_instance_without_projects_at_start": 0,
         "derivation_while_linked_instance_empty": 0, "unvalidated_start_with_foreign_ballot": 0,
         "ctor_validation_on_refused": 0, "ctor_validation_on_accepted": 0, "empty_start_object": 0}
    nattr = tot = 0
    for c, o in zip(cases, obs):
        if not isinstance(o, dict) or "steps" not in o:
            continue
        cl = c["start"]["cls"]
        d["class"][cl] = d["class"].get(cl, 0) + 1
        d["seq_len"][str(len(c["ops"]))] = d["seq_len"].get(str(len(c["ops"])), 0) + 1
        nattr += sum(1 for x in c["start"]["attrs"] if x)
        tot += len(c["start"]["attrs"])
        if is_prof(cl) and c["start"]["attrs"][1] == 0:
            d["validated_start"] += 1
        tags = elt_tags(cl) if is_prof(cl) else []
        if is_prof(cl) and c["start"]["attrs"][1] != 0:
            pl = c["start"].get("payload") or []
            ids = [x[0] if isinstance(x, list) else x for x in pl]
            d["unvalidated_start_with_foreign_ballot"] += any(not accepts(cl, c["start"]["attrs"][2], tags[i]) for i in ids)
        d["linked_instance_without_projects_at_start"] += c.get("inst_nproj", 3) == 0
        d["empty_start_object"] += bool(c["start"].get("empty")) or (is_prof(cl) and not c["start"].get("payload"))
        inst_empty = c.get("inst_nproj", 3) == 0
        for op, s in zip(c["ops"], o["steps"]):
            d["op"][op[0]] = d["op"].get(op[0], 0) + 1
            d["outcome"][s["kind"]] = d["outcome"].get(s["kind"], 0) + 1
            if op[0] in ("append", "insert", "extend", "iadd_els", "setitem", "setslice", "mp_setitem", "setdefault",
                         "update_iter", "update_map"):
                if s["kind"] == "raise" and is_prof(cl) and c["start"]["attrs"][1] == 0:
                    d["mutation_refused_on_validated_profile"] += 1
                elif s["kind"] != "raise":
                    d["mutation_accepted"] += 1
            if op[0] == "inst_mut":
                inst_empty = op[1] != 1
            if op[0] == "ctor_val" and op[1]:
                d["ctor_validation_on_refused" if s["kind"] == "raise" else "ctor_validation_on_accepted"] += 1
            if s["kind"] == "new":
                d["promised_derivations_observed"] += 1
                if inst_empty and "Profile" in cl:
                    d["derivation_while_linked_instance_empty"] += 1
    d["nondefault_attr_share"] = round(nattr / max(tot, 1), 3)
    return d


def shrink(case):
    ops = case["ops"]
    for j in range(len(ops)):
        c = dict(case)
        c["ops"] = ops[:j] + ops[j + 1:]
        if c["ops"]:
            yield c
    st = case["start"]
    for key in ("attrs", "other_attrs"):
        for j, v in enumerate(st[key]):
            if v:
                c = dict(case)
                s2 = dict(st)
                s2[key] = st[key][:j] + [0] + st[key][j + 1:]
                c["start"] = s2
                yield c
    for key in ("payload", "other_payload"):
        if st.get(key):
            for j in range(len(st[key])):
                c = dict(case)
                s2 = dict(st)
                s2[key] = st[key][:j] + st[key][j + 1:]
                c["start"] = s2
                yield c
    if any(case["inst_attrs"][1:]) or case["inst_attrs"][0] != 1:
        c = dict(case)
        c["inst_attrs"] = [1] + [0] * (len(case["inst_attrs"]) - 1)    # the linked instance keeps a non-default budget
        yield c
    if case.get("inst_nproj", 3) != 3:
        c = dict(case)
        c["inst_nproj"] = 3
        yield c

