"""C09 -- exhaustion wrappers stay feasible, extend their base rule and stop correctly.

The harness calls the implementation's OWN base rule (method_of_equal_shares / sequential_phragmen /
greedy_utilitarian_welfare) at every budget B, B+s, B+2s, ... (resp. on every reachable initial
allocation of a rule sequence), passes these outcomes to Coq as tables, and the Coq side decides which
of them the wrapper must return (Model/Exhaustion.v, Oracle/C09.v)."""
from __future__ import annotations

from fractions import Fraction

from .. import core
from ..core import q, lst, natl, boolc, opt, pair
from .. import pb

NAMING = True
ID = "C09"
ORACLE = "Oracle.C09"
PROPS = ["Props/C09.v", "Props/C09rules.v", "Props/C09gen.v"]
LEVEL = "proof"
SHARD = 80
CODES = {
    1: ("oracle", "a returned allocation is not feasible for the original instance (cost above the budget limit, "
                  "duplicate or unknown project)"),
    2: ("oracle", "the result is not an outcome of the base rule at a tried budget / does not contain the initial "
                  "allocation and an outcome of the first rule"),
    3: ("oracle", "wrong stopping index: the wrapper did not return the outcome at the first exhaustive try / the "
                  "last try before the first infeasible one / the last try within the budget bound"),
    4: ("oracle", "irresolute completion_by_rule_combination dropped an outcome of the first rule"),
    5: ("oracle", "completion returned a non-exhaustive allocation that is not an outcome of the last rule"),
    6: ("oracle", "the instance's budget_limit was changed by the wrapper"),
    7: ("model", "the wrapper's return value differs from the Gallina wrapper model (Model/Exhaustion.v)"),
    8: ("oracle", "the wrapper did not call the rule with the budgets B, B+s, B+2s, ... in turn"),
    9: ("model", "harness table incomplete: the model asked for a base-rule outcome the harness did not tabulate"),
    10: ("model", "the Gallina wrapper model ran out of fuel"),
    11: ("oracle", "completion returned an allocation over the budget limit because a wrapped rule, started from a "
                   "feasible allocation, returned one (Equal Shares ignores the cost of its initial allocation)"),
    core.RAISED: ("oracle", "the wrapper raised / the interpreter died"),
}
RULE = ("approval elections with 1..5 voters (Profile and MultiProfile), 1..6 projects, costs from tie-rich pools "
        "(zeros, equal costs, halves/thirds), feasible initial allocations in ~30%; budget increase around "
        "{Equal Shares, Phragmen, greedy} x {Cost_Sat, Cardinality_Sat}, integer/fractional/default steps, bounds "
        "below B, = B, = B+k*step exactly, default; iterated Equal Shares with integer and fractional voter "
        "increments; completion with rule sequences of length 0..3; resolute and irresolute; non-trivial = "
        "distinct case in which the wrapper needed at least two tries / at least two rules")
ASSUMPTIONS = [
    "hand-written Gallina model of exhaustion.py and of the iterated loop of mes_rule.py, tied to the code by "
    "differential execution only",
    "the base rules are called by the harness exactly as the wrapper calls them (same keyword arguments, budget "
    "B+k*s on an instance with the same projects); their outcomes are the table the Coq model works on",
    "gmpy2 mpq arithmetic = exact Q",
]
TRUSTED = ["Model/Exhaustion.v mirrors pabutools/rules/exhaustion.py and the while-loop of "
           "method_of_equal_shares_scheme (modelled, not verified)",
           "the harness's computation of the supported projects of the iterated Equal Shares (sat > 0 for a voter)"]
EXPLANATION = ("Theorems (any base rule, unbounded): the retry loop returns exactly what the property statement "
               "prescribes (least stopping try; outcome before the first infeasible one; last try within the bound), "
               "the result is feasible for the original instance and contains the initial allocation; completion: "
               "every returned allocation contains an outcome of the first rule and the initial allocation, is "
               "feasible, is exhaustive when the last rule is, and no outcome of the first rule is dropped. "
               "Tie: wrapper return value vs. the model and the property statement evaluated in Coq on the "
               "implementation's own base-rule outcomes.")

POOLS = [
    [1, 1, 2, 2, 3],
    [0, 1, 1, 2, 3],
    [1, 2, 3, 4, 5],
    ["1/2", "1/3", "3/2", "2/3", 1, 2],
    [2, 2, 2],
    ["5/2", "7/3", 1, 4],
]
CAP = 130          # maximal number of tabulated tries
CCAP = 160         # maximal number of tabulated rule calls of a completion


def budget(tier):
    return 2800 if tier == "quick" else 21000


# ------------------------------------------------------------------------------------------------
PAIR_SEQS = [[["mes", "cost"], ["phragmen", ""]], [["mes", "cost"], ["mes", "card"]],
             [["mes", "cost"], ["mes", "card"], ["greedy", "cost"]],
             [["mes", "cost"], ["phragmen", ""], ["greedy", "card"]]]


def gen_mesiter_deep(rng):
    """Targeted stream for the state that the iterated Equal Shares carries from one try to the next (voters'
    budgets, cached affordabilities of the shared MESProject objects): 5..8 projects with spread costs, 3..6
    voters with overlapping ballots, a budget well below the total cost and SMALL increments, so that several
    projects are bought per try, supporters run short (cached affordabilities rise) and 4..10 tries are needed."""
    m = rng.choice([5, 6, 6, 7, 7, 8])
    n = rng.choice([3, 4, 4, 5, 6])
    style = rng.randrange(3)
    if style == 0:
        costs = [Fraction(rng.randint(1, 6)) for _ in range(m)]
    elif style == 1:
        costs = [Fraction(rng.choice([1, 2, 3, 4, 5, 6, 8])) for _ in range(m)]
    else:
        costs = [Fraction(rng.randint(2, 12), 2) for _ in range(m)]
    tot = sum(costs, Fraction(0))
    B = tot * rng.choice([Fraction(1, 2), Fraction(2, 3), Fraction(3, 5), Fraction(2, 5), Fraction(3, 4)])
    ballots = [sorted(rng.sample(range(m), rng.randint(1, min(m, 4)))) for _ in range(n)]
    inc = rng.choice([Fraction(1, 4), Fraction(1, 8), Fraction(1, 6), Fraction(1, 5), Fraction(1, 3)])
    resolute = m > 6 or rng.random() < 0.8
    return {"kind": "mesiter", "stream": "mesiter_deep", "costs": [pb.qs(c) for c in costs], "budget": pb.qs(B),
            "ballots": ballots, "multi": rng.random() < 0.3, "init": [], "resolute": resolute,
            "sat": rng.choice(["cost", "card"]), "step": pb.qs(inc)}


def gen_completion_pair(rng):
    """Targeted stream for the bookkeeping of irresolute completion over SEVERAL pending allocations: under
    Cost_Sat two projects a, b with the same supporters tie whatever their costs; the budget is chosen so that the
    supporters can pay either but not both, so Equal Shares returns two different non-exhaustive outcomes with
    different money left, which the later rules (Phragmen / Equal Shares with another measure / greedy) complete
    differently -- one exhaustively, the other not."""
    n = rng.choice([3, 3, 4])
    s_ = n - 1
    ca, cb = Fraction(rng.randint(2, 6)), Fraction(rng.randint(2, 6))
    fill = [pb.F(rng.choice([1, 1, 2, 2, 3, "3/2"])) for _ in range(rng.choice([2, 3, 3, 4]))]
    lo, hi = max(ca, cb) * n / s_, (ca + cb) * n / s_
    cands = [Fraction(x, 2) for x in range(int(lo * 2), int(hi * 2) + 1) if lo <= Fraction(x, 2) < hi] or [lo]
    B = rng.choice(cands)
    costs = [ca, cb] + fill
    m = len(costs)
    perm = list(range(m))
    rng.shuffle(perm)
    newc = [None] * m
    for j in range(m):
        newc[perm[j]] = costs[j]
    ballots = []
    for v in range(n):
        b = [perm[0], perm[1]] if v < s_ else []
        for j in range(2, m):
            if rng.random() < (0.7 if v >= s_ else 0.25):
                b.append(perm[j])
        ballots.append(sorted(b))
    return {"kind": "completion", "stream": "completion_pair", "costs": [pb.qs(c) for c in newc], "budget": pb.qs(B),
            "ballots": ballots, "multi": rng.random() < 0.3, "init": [], "resolute": rng.random() < 0.1,
            "rules": rng.choice(PAIR_SEQS), "params_none": False}


def gen_pair_retry(rng):
    """Targeted stream for the any(...) tests of the IRRESOLUTE retry loops: the pair election above makes the
    irresolute base rule (Equal Shares or greedy under Cost_Sat: equal approval scores tie whatever the costs)
    return several outcomes of DIFFERENT cost at the same budget, so that at some try one outcome is exhaustive /
    infeasible for the original instance and another is not."""
    c = gen_completion_pair(rng)
    B = pb.F(c["budget"]) * rng.choice([1, 1, Fraction(4, 5), Fraction(3, 5), Fraction(1, 2)])
    out = {"costs": c["costs"], "budget": pb.qs(B), "ballots": c["ballots"], "multi": c["multi"], "init": [],
           "resolute": rng.random() < 0.1, "sat": "cost", "stream": "pair_retry"}
    step = rng.choice([Fraction(1, 2), Fraction(1, 3), Fraction(1, 4), Fraction(1), B / 10])
    if rng.random() < 0.6:
        out.update({"kind": "increase", "rule": rng.choice(["mes", "mes", "greedy"]), "stop": rng.random() < 0.75,
                    "step": pb.qs(step), "pass_params": True,
                    "bound": rng.choice([None, None, pb.qs(B + step * rng.randrange(2, 9)), pb.qs(B * 2)])})
    else:
        out.update({"kind": "mesiter", "step": pb.qs(step / len(c["ballots"]))})
    return out


# ---- a small exact model of Equal Shares (approval ballots, Cost_Sat / Cardinality_Sat, lexicographic ties), used
# ---- ONLY to select inputs (never for a verdict): elections on which the rule is NOT monotone in the budget
def _model_mes(costs, ballots, B, sat, n=None):
    """exact Equal Shares for approval ballots, Cost_Sat ('cost') / Cardinality_Sat ('card'), lexicographic ties"""
    n = len(ballots) if n is None else n
    m = len(costs)
    bud = [Fraction(B) / n for _ in ballots]
    u = lambda p: (costs[p] if sat == "cost" else Fraction(1))
    supp = {p: [i for i, b in enumerate(ballots) if p in b] for p in range(m)}
    W = [p for p in range(m) if costs[p] == 0 and supp[p] and sat == "card"]
    rem = [p for p in range(m) if costs[p] > 0 and supp[p]]
    while True:
        best = None
        for p in rem:
            S = supp[p]
            if sum(bud[i] for i in S) < costs[p]:
                continue
            # least rho with sum min(bud_i, rho*u) = cost ; u identical for all supporters
            srt = sorted(S, key=lambda i: bud[i])
            paid = Fraction(0); k = len(srt); rho = None
            for j, i in enumerate(srt):
                r = (costs[p] - paid) / ((k - j) * u(p))
                if r * u(p) <= bud[i]:
                    rho = r; break
                paid += bud[i]
            if rho is None:
                continue
            if best is None or rho < best[0]:
                best = (rho, p)
        if best is None:
            return sorted(W)
        rho, p = best
        for i in supp[p]:
            bud[i] -= min(bud[i], rho * u(p))
        W.append(p); rem.remove(p)
def _model_trace(costs, ballots, B, sat, inc, cap=40):
    """outcomes of the tries of the iterated rule until the first infeasible / exhaustive one"""
    n = len(ballots); m = len(costs)
    avail = [p for p in range(m) if costs[p] > 0 and any(p in b for b in ballots)]
    outs = []
    for k in range(cap):
        W = _model_mes(costs, ballots, B + k * n * inc, sat)
        c = sum(costs[p] for p in W)
        if c > B:
            return outs, "infeasible"
        outs.append(W)
        if all(p in W or c + costs[p] > B for p in avail):
            return outs, "exhaustive"
    return outs, "cap"


def sample_nonmonotone(rng, tries):
    """rejection sampling with the model: the tries of the iterated rule stop by INFEASIBILITY and the last feasible
    outcome is strictly cheaper than an earlier one (about 1 random small election in 3000)"""
    found = []
    for _ in range(tries):
        m = rng.choice([4, 5, 5, 6, 6, 7])
        n = rng.choice([2, 3, 3, 4, 4, 5])
        costs = [Fraction(rng.choice([1, 1, 2, 2, 3, 3, 4, 5, 6, 9])) for _ in range(m)]
        tot = sum(costs)
        B = Fraction(rng.randint(max(2, int(tot / 4)), max(3, int(tot * 2 / 3))))
        ballots = [sorted(rng.sample(range(m), rng.randint(1, min(m, 4)))) for _ in range(n)]
        inc = rng.choice([Fraction(1, 3), Fraction(1, 4), Fraction(1, 2), Fraction(1, 5), Fraction(1, 6)])
        sat = rng.choice(["cost", "card"])
        outs, why = _model_trace(costs, ballots, B, sat, inc)
        if why != "infeasible" or len(outs) < 2:
            continue
        cs = [sum(costs[p] for p in W) for W in outs]
        if cs[-1] < max(cs[:-1]):
            found.append({"costs": [str(c) for c in costs], "budget": str(B), "ballots": ballots, "step": str(inc),
                          "sat": sat, "tries": len(outs)})
    return found


_POOL = []


def _pool():
    """117 elections found by sample_nonmonotone (16 x 40000 candidates, seeds 1..15), kept in c09_pool.json because
    sampling them afresh costs ~1.5 s each; every use re-scales, permutes and re-wraps them"""
    import json
    import os

    if not _POOL:
        _POOL.extend(json.load(open(os.path.join(os.path.dirname(os.path.abspath(__file__)), "c09_pool.json"))))
    return _POOL


def gen_nonmonotone(rng):
    """Targeted stream for WHICH outcome the retry loops hand back when they stop by infeasibility: Equal Shares is
    not monotone in the budget, and on these elections the last feasible outcome is strictly cheaper than an earlier
    one, so 'the outcome at the last budget tried' differs from 'the best / largest outcome seen so far'."""
    e = rng.choice(_pool())
    if rng.random() < 0.04:
        fresh = sample_nonmonotone(rng, 300)
        if fresh:
            e = fresh[0]
    f = rng.choice([1, 1, 2, Fraction(1, 2), Fraction(3, 2), Fraction(1, 3), 3])
    costs = [Fraction(c) * f for c in e["costs"]]
    B = Fraction(e["budget"]) * f
    inc = Fraction(e["step"]) * f
    ballots = [list(b) for b in e["ballots"]]
    rng.shuffle(ballots)
    n = len(ballots)
    if rng.random() < 0.3:                      # an extra project nobody approves and nobody can afford
        costs.append(B + 1)
    kindsel = rng.random()
    case = {"costs": [pb.qs(c) for c in costs], "budget": pb.qs(B), "ballots": ballots, "multi": rng.random() < 0.25,
            "init": [], "sat": e["sat"], "stream": "nonmonotone", "resolute": rng.random() < 0.8}
    if kindsel < 0.65:
        case.update({"kind": "mesiter", "step": pb.qs(inc)})
    else:
        # the same tries through exhaustion_by_budget_increase: budget step n*inc, stop by infeasibility
        case.update({"kind": "increase", "rule": "mes", "stop": rng.random() < 0.25, "step": pb.qs(inc * n),
                     "bound": rng.choice([None, pb.qs(B * 3)]), "pass_params": True})
    return case


def gen(rng, i, tier):
    if i % 7 == 3:
        return gen_mesiter_deep(rng)
    if i % 7 == 4:
        return gen_completion_pair(rng)
    if i % 7 == 5:
        return gen_pair_retry(rng)
    if i % 7 == 6:
        return gen_nonmonotone(rng)
    kind = ["increase", "mesiter", "completion"][i % 7]
    resolute = rng.random() < (0.6 if kind != "completion" else 0.4)
    m = rng.choice([1, 2, 3, 3, 4, 4, 5, 5, 6]) if resolute else rng.choice([1, 2, 3, 3, 4, 4, 5])
    n = rng.choice([1, 2, 2, 3, 3, 4, 5])
    pool = rng.choice(POOLS)
    if kind == "completion" and not resolute and rng.random() < 0.5:
        pool = rng.choice([[2, 2, 2, 1], [3, 3, 2, 2], [1, 1, 1], ["3/2", "3/2", 1, 1]])   # ties
    costs = [pb.F(rng.choice(pool)) for _ in range(m)]
    tot = sum(costs, Fraction(0))
    mode = rng.randrange(5)
    if mode == 0:
        B = max(costs)
    elif mode == 1:
        B = tot / 2
    elif mode == 2:
        B = sum(rng.sample(costs, rng.randrange(1, m + 1)), Fraction(0))
    elif mode == 3:
        B = Fraction(rng.choice([1, 2, 3, 4, 5, 6]))
    else:
        B = tot * Fraction(rng.randrange(1, 8), 8)
    if B <= 0:
        B = Fraction(rng.choice([1, 2]))
    ballots = []
    style = rng.randrange(4)
    if kind == "completion" and not resolute and rng.random() < 0.5:
        style = 0
    for _ in range(n):
        if style == 0 and ballots and rng.random() < 0.5:
            ballots.append(list(rng.choice(ballots)))          # duplicates (multiplicities >= 2)
        elif rng.random() < 0.08:
            ballots.append([])                                 # empty ballot
        else:
            k = rng.randrange(1, m + 1)
            ballots.append(sorted(rng.sample(range(m), k)))
    init = []
    if rng.random() < 0.3:
        cand = list(range(m))
        rng.shuffle(cand)
        c = Fraction(0)
        for p in cand[: rng.randrange(1, 3)]:
            if c + costs[p] <= B:
                init.append(p)
                c += costs[p]
    if kind == "completion" and not resolute and rng.random() < 0.5:
        # twins: several equally good projects of which only one fits -> several partial outcomes of the first
        # rule, each of which has to be completed separately
        c = Fraction(rng.choice([2, 3, 3, "5/2"]))
        k = rng.choice([2, 2, 3])
        fill = [Fraction(rng.choice([1, 1, 2, "1/2"])) for _ in range(rng.choice([1, 2, 2]))]
        costs = [c] * k + fill
        pos = list(range(len(costs)))
        rng.shuffle(pos)
        costs = [costs[j] for j in pos]
        twins = [j for j in range(len(costs)) if pos[j] < k]
        fillers = [j for j in range(len(costs)) if pos[j] >= k]
        m = len(costs)
        tot = sum(costs, Fraction(0))
        B = c + rng.choice([min(fill), max(fill), sum(fill), Fraction(1, 2)])
        n = rng.choice([2, 2, 3])
        ballots = []
        for v in range(n):
            b = list(twins) if rng.random() < 0.85 else rng.sample(twins, 1)
            for f in fillers:
                if rng.random() < 0.3:
                    b.append(f)
            ballots.append(sorted(b))
        init = []
    case = {"kind": kind, "costs": [pb.qs(c) for c in costs], "budget": pb.qs(B), "ballots": ballots,
            "multi": rng.random() < 0.4, "init": sorted(init), "resolute": resolute}
    sat = rng.choice(["cost", "card"])
    if kind == "increase":
        case["rule"] = rng.choice(["mes", "mes", "mes", "phragmen", "greedy"])
        case["sat"] = sat
        # greedy (always) and Phragmen (mostly) are exhaustive at the first try: switch the exhaustive stop off
        # more often for them so that the infeasibility stop and the bound are exercised
        case["stop"] = rng.random() < {"mes": 0.8, "phragmen": 0.5, "greedy": 0.3}[case["rule"]]
        s = rng.choice([Fraction(1), Fraction(1, 2), Fraction(1, 2), Fraction(1, 3), Fraction(1, 4), Fraction(2),
                        B / 10, B / 20, B / 4, Fraction(2, 3), None])
        case["step"] = None if s is None else pb.qs(s)
        se = s if s is not None else B / 100
        bm = rng.randrange(8)
        if bm == 0:
            bound = None
        elif bm == 1:
            bound = B                         # exactly one try
        elif bm == 2:
            bound = B - Fraction(1, 2)        # no try at all: the initial allocation comes back
        elif bm == 3:
            bound = B + se * rng.randrange(1, 6)          # a try lands exactly on the bound (<=)
        elif bm == 4:
            bound = B + se * rng.randrange(1, 6) - se / 3  # just below a try
        elif bm == 5:
            bound = B * Fraction(3, 2)
        elif bm == 6:
            bound = B * 2 + Fraction(1, 7)
        else:
            bound = tot + 1
        if s is None and bound is None and rng.random() < 0.7:
            bound = B * (1 + Fraction(rng.randrange(0, 40), 100))
        case["bound"] = None if bound is None else pb.qs(bound)
        case["pass_params"] = rng.random() < 0.85     # rule_params given (else None, Phragmen only)
    elif kind == "mesiter":
        case["sat"] = sat
        s = rng.choice([Fraction(1), Fraction(1, 2), Fraction(1, 3), Fraction(1, 4), Fraction(2), B / (10 * n),
                        B / (4 * n), Fraction(1, 7), Fraction(1, 5), Fraction(3, 2)])
        case["step"] = pb.qs(s)
    else:
        seqs = [[], [["mes", "cost"]], [["mes", "cost"], ["greedy", "cost"]], [["mes", "card"], ["greedy", "card"]],
                [["mes", "cost"], ["phragmen", ""]], [["mes", "cost"], ["mes", "card"], ["greedy", "cost"]],
                [["phragmen", ""], ["greedy", "cost"]], [["mes", "card"], ["mes", "cost"]],
                [["mes", "cost"], ["greedy", "card"]], [["greedy", "card"]], [["mes", "cost"], ["mes", "card"]]]
        case["rules"] = rng.choice(seqs)
        case["params_none"] = all(r[0] == "phragmen" for r in case["rules"]) and rng.random() < 0.5
    return case


# ------------------------------------------------------------------------------------------------
def _sat(name):
    from pabutools.election import Cost_Sat, Cardinality_Sat

    return {"cost": Cost_Sat, "card": Cardinality_Sat}[name]


def _rule(name):
    from pabutools.rules import method_of_equal_shares, sequential_phragmen, greedy_utilitarian_welfare

    return {"mes": method_of_equal_shares, "phragmen": sequential_phragmen,
            "greedy": greedy_utilitarian_welfare}[name]


def _params(rule, sat):
    return {} if rule == "phragmen" else {"sat_class": _sat(sat)}


def _is_bare(res):
    from pabutools.election.instance import Project
    from pabutools.rules import BudgetAllocation

    return isinstance(res, BudgetAllocation) and all(isinstance(x, Project) for x in res)


def _norm(res, resolute):
    """wrapper/rule return value -> list of sorted rank lists (a singleton when resolute; the iterated
    Equal Shares hands back a bare allocation in irresolute mode when its first try is infeasible)"""
    if resolute or _is_bare(res):
        return [sorted(pb.ranks(res))]
    return [sorted(pb.ranks(a)) for a in res]


def _cost(costs, W):
    return sum((costs[p] for p in W), Fraction(0))


def _exh(costs, B, W, avail):
    c = _cost(costs, W)
    return all(p in W or costs[p] + c > B for p in avail)


def impl(case):
    import signal

    def _alarm(*_):
        raise TimeoutError("the wrapper did not return within 25 s (the retry loop does not stop)")
    signal.signal(signal.SIGALRM, _alarm)
    signal.alarm(25)
    try:
        return _impl(case)
    finally:
        signal.alarm(0)


def _impl(case):
    from pabutools.election import Instance
    from pabutools.rules import (BudgetAllocation, completion_by_rule_combination, exhaustion_by_budget_increase,
                                 method_of_equal_shares)

    costs = [pb.F(c) for c in case["costs"]]
    B = pb.F(case["budget"])
    m = len(costs)
    inst, projs = pb.make_instance(case["costs"], case["budget"])
    prof = pb.make_approval_profile(inst, projs, case["ballots"], case["multi"])
    nb = int(prof.num_ballots())
    res = case["resolute"]
    init = [projs[p] for p in case["init"]]
    out = {"nballots": nb}

    def inst_with(b):
        i2 = Instance(projs, budget_limit=pb.num(b))
        return i2

    if case["kind"] == "increase":
        rule = _rule(case["rule"])
        params = _params(case["rule"], case["sat"])
        step = None if case["step"] is None else pb.F(case["step"])
        bound = None if case["bound"] is None else pb.F(case["bound"])
        se = step if step is not None else B / 100
        be = bound if bound is not None else B * (nb + 1)
        seen = []

        def counted(i, p, **kw):
            seen.append(pb.qs(i.budget_limit))
            return rule(i, p, **kw)

        kw = {}
        if step is not None:
            kw["budget_step"] = pb.num(step)
        if bound is not None:
            kw["budget_bound"] = pb.num(bound)
        pgiven = dict(params) if (case.get("pass_params", True) or params) else None
        r = exhaustion_by_budget_increase(inst, prof, counted, pgiven, initial_budget_allocation=list(init),
                                          resoluteness=res, exhaustive_stop=case["stop"], **kw)
        out["out"] = _norm(r, res)
        out["calls"] = seen
        out["budget_after"] = pb.qs(inst.budget_limit)
        # the table: the implementation's own base rule at B, B+s, ...
        table = []
        k = 0
        reason = "bound"
        extra = 1
        while B + k * se <= be:
            if k >= CAP:
                return {"skip": True, "nballots": nb}
            b = B + k * se
            o = _norm(rule(inst_with(b), prof, initial_budget_allocation=BudgetAllocation(init), resoluteness=res,
                           **params), res)
            table.append([pb.qs(b), o])
            if reason == "bound":
                if any(_cost(costs, W) > B for W in o):
                    reason = "infeasible"
                elif case["stop"] and any(_exh(costs, B, W, range(m)) for W in o):
                    reason = "exhaustive"
                if reason != "bound":
                    out["kstop"] = k
            else:
                extra -= 1
                if extra <= 0:
                    break
            k += 1
        out["table"] = table
        out["reason"] = reason
    elif case["kind"] == "mesiter":
        sat = _sat(case["sat"])
        inc = pb.F(case["step"])
        r = method_of_equal_shares(inst, prof, sat_class=sat, resoluteness=res, initial_budget_allocation=list(init),
                                   voter_budget_increment=pb.num(inc))
        out["bare"] = bool((not res) and _is_bare(r))
        out["out"] = _norm(r, res)
        out["budget_after"] = pb.qs(inst.budget_limit)
        sp = prof.as_sat_profile(sat)
        supp = [j for j in range(m) if any(s.sat_project(projs[j]) > 0 for s in sp)]
        out["supp"] = supp
        avail = [p for p in supp if p not in case["init"] and costs[p] > 0]
        table = []
        k = 0
        reason = None
        extra = 1
        while True:
            if k >= CAP:
                return {"skip": True, "nballots": nb}
            # try k of the iterated rule: every voter holds (B - cost(init))/n + k*inc, which is what the plain
            # rule hands out on an instance with budget limit B + k*n*inc
            bv = (B - _cost(costs, case["init"])) / nb + k * inc
            o = _norm(method_of_equal_shares(inst_with(B + k * nb * inc), prof, sat_class=sat, resoluteness=res,
                                             initial_budget_allocation=list(init)), res)
            table.append([pb.qs(bv), o])
            if reason is None:
                if any(_cost(costs, W) > B for W in o):
                    reason = "infeasible"
                elif any(_exh(costs, B, W, avail) for W in o):
                    reason = "exhaustive"
                if reason is not None:
                    out["kstop"] = k
            else:
                extra -= 1
                if extra <= 0:
                    break
            k += 1
        out["table"] = table
        out["reason"] = reason
    else:
        rules = [_rule(r) for r, _ in case["rules"]]
        params = [_params(r, s) for r, s in case["rules"]]
        r = completion_by_rule_combination(inst, prof, rules, None if case.get("params_none") else params,
                                           initial_budget_allocation=list(init), resoluteness=res)
        out["out"] = _norm(r, res)
        out["budget_after"] = pb.qs(inst.budget_limit)
        level = [BudgetAllocation(init)]
        tables = []
        ncalls = 0
        depth = 0
        for rule, prm in zip(rules, params):
            t = {}
            nxt = []
            for a in level:
                key = tuple(sorted(pb.ranks(a)))
                if key in t:
                    continue
                ncalls += 1
                if ncalls > CCAP:
                    return {"skip": True, "nballots": nb}
                o = rule(inst, prof, initial_budget_allocation=a, resoluteness=res, **prm)
                outs = [o] if res else list(o)
                t[key] = [sorted(pb.ranks(x)) for x in outs]
                nxt.extend(outs)
            tables.append([[list(k_), v] for k_, v in t.items()])
            if any(not _exh(costs, B, sorted(pb.ranks(x)), range(m)) for x in nxt):
                depth += 1
            level = nxt
        out["rules"] = tables
        out["depth"] = depth
    return out


# ------------------------------------------------------------------------------------------------
def _ll(xs):
    return lst([natl(x) for x in xs])


def coq_case(case, o):
    kindn = {"increase": 0, "mesiter": 1, "completion": 2}[case["kind"]]
    if o.get("skip"):
        kindn = 3
    table = lst([pair(q(b), _ll(outs)) for b, outs in o.get("table", [])])
    rules = lst([lst([pair(natl(k), _ll(v)) for k, v in t]) for t in o.get("rules", [])])
    calls = "None"
    if case["kind"] == "increase" and "calls" in o:
        calls = "(Some %s)" % lst([q(b) for b in o["calls"]])
    return "(mkCase %s %s %s %s %s %s %s %s %s %s %s %s %s %s %s)" % (
        core.nat(kindn), core.qlist(case["costs"]), q(case["budget"]), natl(case["init"]),
        boolc(case["resolute"]), boolc(case.get("stop", True)),
        opt(case.get("step"), q), opt(case.get("bound"), q), core.nat(o.get("nballots", 0)),
        natl(o.get("supp", [])), table, rules, _ll(o.get("out", [])), calls,
        q(o.get("budget_after", case["budget"])))


def nontrivial(case, o):
    if o.get("skip"):
        return None
    if case["kind"] in ("increase", "mesiter"):
        k = o.get("kstop")
        if (k is not None and k >= 1) or (k is None and len(o.get("table", [])) >= 2):
            return [case["kind"], case["costs"], case["budget"], case["ballots"], case["init"], case["resolute"],
                    case.get("rule"), case.get("sat"), case.get("step"), case.get("bound"), case.get("stop")]
        return None
    if o.get("depth", 0) >= 1:
        return ["completion", case["costs"], case["budget"], case["ballots"], case["init"], case["resolute"],
                case["rules"]]
    return None


def stats(cases, obs):
    d = {"kind": {}, "stream": {}, "rule": {}, "resolute": 0, "irresolute": 0, "multiprofile": 0, "init_nonempty": 0,
         "fractional_step": 0, "default_step": 0, "default_bound": 0, "exhaustive_stop_off": 0,
         "stop_reason": {}, "tries_hist": {}, "skipped_over_cap": 0, "fractional_costs": 0, "zero_cost": 0,
         "irresolute_with_several_outcomes": 0, "completion_depth": {}, "mes_bare_allocation_returned": 0,
         "zero_tries": 0}

    def inc(h, k):
        h[str(k)] = h.get(str(k), 0) + 1

    for c, o in zip(cases, obs):
        if not isinstance(o, dict) or "out" not in o:
            if isinstance(o, dict) and o.get("skip"):
                d["skipped_over_cap"] += 1
            continue
        inc(d["kind"], c["kind"])
        inc(d["stream"], c.get("stream", "general"))
        d["resolute" if c["resolute"] else "irresolute"] += 1
        d["multiprofile"] += bool(c["multi"])
        d["init_nonempty"] += bool(c["init"])
        cs = [pb.F(x) for x in c["costs"]]
        d["fractional_costs"] += any(x.denominator != 1 for x in cs)
        d["zero_cost"] += any(x == 0 for x in cs)
        d["irresolute_with_several_outcomes"] += (not c["resolute"]) and len(o["out"]) > 1
        if c["kind"] in ("increase", "mesiter"):
            inc(d["rule"], c.get("rule", "mes-iterated"))
            st = c.get("step")
            d["default_step"] += st is None
            d["fractional_step"] += st is not None and pb.F(st).denominator != 1
            if c["kind"] == "increase":
                d["default_bound"] += c.get("bound") is None
                d["exhaustive_stop_off"] += not c.get("stop", True)
                inc(d["tries_hist"], min(len(o.get("calls", [])), 20))
                d["zero_tries"] += len(o.get("calls", [])) == 0
            else:
                inc(d["tries_hist"], min(o.get("kstop", 0) + 1, 20))
                d["mes_bare_allocation_returned"] += bool(o.get("bare"))
            inc(d["stop_reason"], o.get("reason"))
        else:
            inc(d["completion_depth"], o.get("depth", 0))
            inc(d["rule"], "+".join(r for r, _ in c["rules"]) or "(empty sequence)")
    return d


def shrink(case):
    m = len(case["costs"])
    # drop a voter
    for j in range(len(case["ballots"])):
        if len(case["ballots"]) > 1:
            c = dict(case)
            c["ballots"] = case["ballots"][:j] + case["ballots"][j + 1:]
            yield c
    # drop a project
    for j in range(m):
        if m > 1:
            c = dict(case)
            ren = lambda W: [x - (x > j) for x in W if x != j]
            c["costs"] = case["costs"][:j] + case["costs"][j + 1:]
            c["ballots"] = [ren(b) for b in case["ballots"]]
            c["init"] = ren(case["init"])
            yield c
    if case["init"]:
        c = dict(case)
        c["init"] = []
        yield c
    if case["multi"]:
        c = dict(case)
        c["multi"] = False
        yield c
    if case["kind"] == "completion" and len(case["rules"]) > 1:
        for j in range(len(case["rules"])):
            c = dict(case)
            c["rules"] = case["rules"][:j] + case["rules"][j + 1:]
            yield c
    # shrink ballots
    for j, b in enumerate(case["ballots"]):
        for x in b:
            c = dict(case)
            c["ballots"] = [list(bb) for bb in case["ballots"]]
            c["ballots"][j] = [y for y in b if y != x]
            yield c


def describe(case, o, code):
    return {"what_was_compared": "wrapper return value vs. the outcomes of the implementation's own base rule "
                                 "tabulated by the harness (observed.table / observed.rules)",
            "returned": o.get("out"), "calls_made_by_wrapper": o.get("calls"),
            "reference_stop": {"try": o.get("kstop"), "reason": o.get("reason")}}
