"""Signature predicates of recorded findings of property C06 (collected by signatures.py).

pred(case, observed, code) -> bool; decidable on the (shrunk) case and its observation alone.  Every C06 case is
an election in which some ballot is cast at least twice, run on the Profile and on profile.as_multiprofile()."""

# oracle failure codes of props/c06.py
VOTES_COUNT = 38      # votes_count_by_project
VOTER_FLOW = 39       # voter_flow_matrix


def _key(b):
    return repr(sorted(b.items())) if isinstance(b, dict) else repr(list(b))


def _repeated_nonempty_ballot(case):
    seen = set()
    for b in case.get("ballots", []):
        if not b:
            continue
        k = _key(b)
        if k in seen:
            return True
        seen.add(k)
    return False


def c06_votes_count_or_flow_on_multiprofile(case, obs, code) -> bool:
    """votes_count_by_project / voter_flow_matrix add 1 per ballot object: on the MultiProfile a ballot cast by several
    voters counts once (pinned by tests/test_analysis.py::test_profile_properties; recorded for C18 as well).
    Signature: the differing call is one of the two, the case asked for them (analysis kind) and some NON-EMPTY ballot
    is cast at least twice (an empty ballot contributes to neither function)."""
    if code not in (VOTES_COUNT, VOTER_FLOW):
        return False
    if not isinstance(case, dict) or case.get("kind") != "analysis":
        return False
    return _repeated_nonempty_ballot(case)
