"""Helpers that build pabutools objects from JSON-able case dicts and read results back.

Projects are named "p00", "p01", ... so that name order = rank order; a project is identified in
case files by its rank."""
from __future__ import annotations

import itertools
from fractions import Fraction


def F(x) -> Fraction:
    if isinstance(x, Fraction):
        return x
    if isinstance(x, str):
        return Fraction(x)
    if isinstance(x, (list, tuple)):
        return Fraction(int(x[0]), int(x[1]))
    try:
        return Fraction(int(x.numerator), int(x.denominator))
    except AttributeError:
        return Fraction(x)


def qs(x) -> str:
    x = F(x)
    return "%d/%d" % (x.numerator, x.denominator)


def num(x):
    """JSON rational string -> the numeric type the library uses (int when integral, else mpq)"""
    from pabutools.fractions import frac

    x = F(x)
    if x.denominator == 1:
        return int(x.numerator)
    return frac(int(x.numerator), int(x.denominator))


# Naming schemes.  0: "p00".."pNN".  1: realistic names in which one name is a proper prefix of another and the
# continuation starts with characters below and above ',' -- rank = position in Python's string order, so
# "lexicographic tie-breaking = smaller rank first" still holds.  The worker selects the scheme per case.
_NAMES1 = sorted(["Park", "Park (north)", "Park +", "Park-side", "Road", "Road 2", "Road!", "Road2", "Zoo", "Zoo #1",
                  "Zoo*", "Zoo.b", "Zoo/c", "Zz"])
_RANK1 = {n: i for i, n in enumerate(_NAMES1)}
_NAMING = 0


def set_naming(k) -> None:
    global _NAMING
    _NAMING = int(k or 0)


def pname(i: int) -> str:
    if _NAMING == 1 and i < len(_NAMES1):
        return _NAMES1[i]
    return "p%02d" % i


def rank(p) -> int:
    name = str(p.name)
    if name in _RANK1:
        return _RANK1[name]
    return int(name[1:])


def ranks(ps) -> list[int]:
    return [rank(p) for p in ps]


def make_instance(costs, budget, order=None):
    from pabutools.election import Instance, Project

    projs = [Project(pname(i), num(c)) for i, c in enumerate(costs)]
    inst = Instance()
    for i in (order if order is not None else range(len(projs))):
        inst.add(projs[i])
    inst.budget_limit = num(budget)
    return inst, projs


def make_approval_profile(inst, projs, ballots, multi=False):
    from pabutools.election import ApprovalBallot, ApprovalProfile

    prof = ApprovalProfile([ApprovalBallot([projs[i] for i in b]) for b in ballots], instance=inst)
    return prof.as_multiprofile() if multi else prof


def make_cardinal_profile(inst, projs, ballots, multi=False):
    """ballots: list of {rank(str): score}"""
    from pabutools.election import CardinalBallot, CardinalProfile

    prof = CardinalProfile(
        [CardinalBallot({projs[int(k)]: num(v) for k, v in b.items()}) for b in ballots], instance=inst)
    return prof.as_multiprofile() if multi else prof


def make_cumulative_profile(inst, projs, ballots, multi=False):
    from pabutools.election import CumulativeBallot, CumulativeProfile

    prof = CumulativeProfile(
        [CumulativeBallot({projs[int(k)]: num(v) for k, v in b.items()}) for b in ballots], instance=inst)
    return prof.as_multiprofile() if multi else prof


def make_ordinal_profile(inst, projs, ballots, multi=False):
    from pabutools.election import OrdinalBallot, OrdinalProfile

    prof = OrdinalProfile([OrdinalBallot([projs[i] for i in b]) for b in ballots], instance=inst)
    return prof.as_multiprofile() if multi else prof


def make_profile(kind, inst, projs, ballots, multi=False):
    return {"approval": make_approval_profile, "cardinal": make_cardinal_profile,
            "cumulative": make_cumulative_profile, "ordinal": make_ordinal_profile}[kind](
        inst, projs, ballots, multi)


# ----------------------------------------------------------------------------------------------
# solver guard: re-validate every answer of the bundled CBC solver
# ----------------------------------------------------------------------------------------------
SOLVER = {"calls": 0, "faults": 0, "last_fault": None}


def install_solver_guard(bruteforce_max_vars=12, tol=1e-6):
    """Wrap mip.Model.optimize: after every call check the returned point against every row of the
    (float) model the solver was given, within `tol`, and, for small pure-binary models, check
    optimality / infeasibility claims by enumeration.  A fault is recorded in SOLVER (the case is then discarded
    as a solver fault, as the properties prescribe)."""
    import mip

    if getattr(mip.Model, "_verif_guard", False):
        return
    orig = mip.Model.optimize

    def row_ok(expr, val, exact=False):
        # the solver works on the float model within its own tolerances: a point is valid for the
        # model it was given when every row holds within `tol`
        s = float(expr.const)
        for v, c in expr.expr.items():
            s += float(c) * float(val[v.idx])
        if expr.sense == "<":
            return s <= tol
        if expr.sense == ">":
            return s >= -tol
        return abs(s) <= tol

    def guard(self, *a, **k):
        SOLVER["calls"] += 1
        st = orig(self, *a, **k)
        try:
            vars_ = list(self.vars)
            allbin = all(v.var_type in (mip.BINARY,) for v in vars_)
            if st in (mip.OptimizationStatus.OPTIMAL, mip.OptimizationStatus.FEASIBLE):
                val = {}
                fault = None
                for v in vars_:
                    x = v.x
                    if x is None:
                        fault = "no value for " + v.name
                        break
                    if v.var_type in (mip.BINARY, mip.INTEGER):
                        if abs(x - round(x)) > 1e-6:
                            fault = "non-integral " + v.name
                            break
                        val[v.idx] = float(round(x))
                    else:
                        val[v.idx] = float(x)
                if fault is None:
                    for c in self.constrs:
                        if not row_ok(c.expr, val):
                            fault = "row violated: " + str(c.name)
                            break
                if fault is None and allbin and len(vars_) <= bruteforce_max_vars and st == mip.OptimizationStatus.OPTIMAL:
                    obj = self.objective
                    sense_max = self.sense == mip.MAXIMIZE

                    def objval(vv):
                        s = float(obj.const)
                        for v, c in obj.expr.items():
                            s += float(c) * vv[v.idx]
                        return s
                    cur = objval(val)
                    rows = [c.expr for c in self.constrs]
                    for bits in itertools.product((0.0, 1.0), repeat=len(vars_)):
                        vv = {v.idx: b for v, b in zip(vars_, bits)}
                        if all(row_ok(r, vv) for r in rows):
                            o = objval(vv)
                            if (sense_max and o > cur + 1e-6) or (not sense_max and o < cur - 1e-6):
                                fault = "sub-optimal answer reported OPTIMAL"
                                break
                if fault:
                    SOLVER["faults"] += 1
                    SOLVER["last_fault"] = fault
            elif st == mip.OptimizationStatus.INFEASIBLE and allbin and len(vars_) <= bruteforce_max_vars:
                rows = [c.expr for c in self.constrs]
                for bits in itertools.product((0.0, 1.0), repeat=len(vars_)):
                    vv = {v.idx: b for v, b in zip(vars_, bits)}
                    if all(row_ok(r, vv) for r in rows):
                        SOLVER["faults"] += 1
                        SOLVER["last_fault"] = "INFEASIBLE reported for a feasible model"
                        break
        except Exception as e:  # the guard itself must never change behaviour
            SOLVER["last_fault"] = "guard error " + repr(e)
        return st

    mip.Model.optimize = guard
    mip.Model._verif_guard = True


def solver_reset():
    SOLVER["calls"] = 0
    SOLVER["faults"] = 0
    SOLVER["last_fault"] = None


def solver_state():
    return dict(SOLVER)
